package props

import (
	"bytes"
	"crypto/sha256"
	"encoding/hex"
	"fmt"
	"math"
	"math/rand/v2"
	"os"
	"os/exec"
	"path/filepath"
	"sort"
	"strings"
	"sync"

	"github.com/google/go-cmp/cmp"
	"github.com/google/go-cmp/cmp/cmpopts"
	"golang.org/x/exp/maps"
	"golang.org/x/text/language"
	"seehuhn.de/go/postscript/funit"
	"seehuhn.de/go/sfnt"
	"seehuhn.de/go/sfnt/cff"
	"seehuhn.de/go/sfnt/cmap"
	"seehuhn.de/go/sfnt/glyf"
	"seehuhn.de/go/sfnt/glyph"
	"seehuhn.de/go/sfnt/head"
	"seehuhn.de/go/sfnt/kern"
	"seehuhn.de/go/sfnt/opentype/gtab"

	"verif/harness/internal/gen/fontgen"
	"verif/harness/internal/gen/otl"
	"verif/harness/internal/mon"
)

// C01: whole-font write/read round trip and byte fixed point.

func init() {
	mon.RegisterCfg("C01", mon.Config{
		Rule: "stratum constructed: generated fonts (TrueType simple/composite, simple CFF, CID-keyed CFF x glyph-count class x cmap class x layout class x header-field class) are written twice (byte-identical?), read back and compared with the normal form N(F) of the property, then taken once more round the cycle (fixed point, byte-identical second write); a sample is also written in a second OS process (fresh map seeds). stratum bytes: corpus files, library-written files and accepted mutants b: G=Read(b), Read(Write(G))==G, Write(Read(Write(G)))==Write(G). distinct = distinct written files (hash); stratum rich-layout: whole fonts whose GSUB/GPOS/GDEF come from gen/otl (every lookup type and format the encoders support) through the same sequence; stratum rewrite-after-edit: two equal fonts, one written and queried before, get the same in-place edits (names, metrics, timestamps, widths, outlines, a cmap subtable, a lookup) and must be written as the same bytes; stratum concurrent-read: 8 files read and re-written alone and concurrently, digests must agree",
		Assumptions: []string{
			"at least one timestamp is set (otherwise the name table embeds today's date - excluded by the property)",
			"OS/2 selection flags only in combinations the OS/2 specification allows",
			"strings are valid UTF-8 within the 16-bit offsets of the name table",
			"comparison: FDSelect extensionally, times by instant, CFF font matrices / real-valued dictionary entries to 9 significant digits, nil == empty for slices and maps, everything else exactly",
			"simple CFF fonts have at most 60000 glyphs (16-bit string ids), CIDs are at most 65535",
		},
		HardSec: 900,
		SoftSec: 300,
	}, runC01)
}

func tagComparer() cmp.Option {
	return cmp.Comparer(func(a, b language.Tag) bool { return a == b })
}

// fontCmpOpts are the comparison options shared by all whole-font checks.
func fontCmpOpts() []cmp.Option {
	approx := cmpopts.EquateApprox(5e-9, 0)
	isReal := func(p cmp.Path) bool {
		// nearest enclosing struct field (looking back over index steps)
		for i := len(p) - 1; i >= 0 && i >= len(p)-4; i-- {
			if sf, ok := p[i].(cmp.StructField); ok {
				switch sf.Name() {
				case "FontMatrix", "FontMatrices", "BlueScale", "StdHW", "StdVW":
					return true
				}
				return false
			}
		}
		return false
	}
	return []cmp.Option{
		cmpopts.EquateEmpty(),
		tagComparer(),
		cmp.FilterPath(isReal, approx),
		cmp.Comparer(func(a, b cff.FDSelectFn) bool { return true }), // compared extensionally elsewhere
	}
}

// diffFonts returns "" when a and b are equal under the C01 comparator.
func diffFonts(a, b *sfnt.Font) (d string) {
	defer func() {
		if r := recover(); r != nil {
			d = fmt.Sprintf("comparator panic: %v", r)
		}
	}()
	a, b = normWidths(a), normWidths(b)
	if !cmp.Equal(a, b, fontCmpOpts()...) {
		if d := cmp.Diff(a, b, fontCmpOpts()...); d != "" {
			return d
		}
		return "fonts differ (no printable difference)"
	}
	oa, okA := a.Outlines.(*cff.Outlines)
	ob, okB := b.Outlines.(*cff.Outlines)
	if okA && okB && len(oa.Glyphs) == len(ob.Glyphs) {
		for i := range oa.Glyphs {
			if oa.FDSelect(glyph.ID(i)) != ob.FDSelect(glyph.ID(i)) {
				return fmt.Sprintf("FDSelect(%d): %d != %d", i, oa.FDSelect(glyph.ID(i)), ob.FDSelect(glyph.ID(i)))
			}
		}
	}
	return ""
}

// normWidths identifies "no width data" with "all widths zero" for TrueType
// outlines (a file without hmtx reads as nil and is written as zeros; the
// advance widths, which is what the property speaks about, are the same).
func normWidths(f *sfnt.Font) *sfnt.Font {
	o, ok := f.Outlines.(*glyf.Outlines)
	if !ok || o.Widths != nil {
		return f
	}
	f2 := *f
	o2 := *o
	o2.Widths = make([]funit.Int16, len(o.Glyphs))
	f2.Outlines = &o2
	return &f2
}

func bestLookup(f *sfnt.Font, r rune) glyph.ID {
	if f.CMapTable == nil {
		return 0
	}
	sub, err := f.CMapTable.GetBest()
	if err != nil || sub == nil {
		return 0
	}
	return sub.Lookup(r)
}

func glyphTop(f *sfnt.Font, gid glyph.ID) funit.Int16 {
	return f.GlyphBBox(gid).URy
}

// stdLigatures is the independent statement of the synthetic ligature rule:
// for each of the five f-ligature characters that the font maps, together
// with all of its component letters, there is a ligature rule.  When several
// letters share a glyph, different ligatures have the same component glyphs;
// all their outputs are acceptable for that key.
func stdLigatures(f *sfnt.Font) map[string]map[glyph.ID]bool {
	res := map[string]map[glyph.ID]bool{}
	for lig, comps := range map[rune]string{0xFB00: "ff", 0xFB01: "fi", 0xFB02: "fl", 0xFB03: "ffi", 0xFB04: "ffl"} {
		out := bestLookup(f, lig)
		if out == 0 {
			continue
		}
		var in []glyph.ID
		ok := true
		for _, c := range comps {
			g := bestLookup(f, c)
			if g == 0 {
				ok = false
			}
			in = append(in, g)
		}
		if ok {
			key := fmt.Sprint(in)
			if res[key] == nil {
				res[key] = map[glyph.ID]bool{}
			}
			res[key][out] = true
		}
	}
	return res
}

// ligatureSet extracts (input sequence -> outputs) from a GSUB table that
// consists of type 4 lookups.
func ligatureSet(info *gtab.Info) map[string]map[glyph.ID]bool {
	res := map[string]map[glyph.ID]bool{}
	if info == nil {
		return res
	}
	for _, l := range info.LookupList {
		for _, st := range l.Subtables {
			s4, ok := st.(*gtab.Gsub4_1)
			if !ok {
				continue
			}
			for first, idx := range s4.Cov {
				if idx >= len(s4.Repl) {
					continue
				}
				for _, lig := range s4.Repl[idx] {
					key := fmt.Sprint(append([]glyph.ID{first}, lig.In...))
					if res[key] == nil {
						res[key] = map[glyph.ID]bool{}
					}
					res[key][lig.Out] = true
				}
			}
		}
	}
	return res
}

// sameLigatures: same input sequences, and every output the font has for a
// sequence is one the rule allows.
func sameLigatures(want, got map[string]map[glyph.ID]bool) bool {
	if len(want) != len(got) {
		return false
	}
	for key, outs := range got {
		w, ok := want[key]
		if !ok {
			return false
		}
		for o := range outs {
			if !w[o] {
				return false
			}
		}
	}
	return true
}

var modelWidthNames = map[int]string{1: "Ultra Condensed", 2: "Extra Condensed", 3: "Condensed", 4: "Semi Condensed", 5: "Normal",
	6: "Semi Expanded", 7: "Expanded", 8: "Extra Expanded", 9: "Ultra Expanded"}

var modelWeightNames = map[int]string{100: "Thin", 200: "Extra Light", 300: "Light", 400: "Normal", 500: "Medium",
	600: "Semi Bold", 700: "Bold", 800: "Extra Bold", 900: "Black"}

// modelSubfamily is the harness's statement of the subfamily naming
// convention: "<width> <weight> <Oblique|Italic>" with the normal width and
// weight left out, the weight rounded to the nearest named class (and left out
// if the family name or the width already contains that word), "Bold" for a
// bold font of normal/unset weight, and "Regular" when nothing remains.
func modelSubfamily(f *sfnt.Font) string {
	var words []string
	if w := int(f.Width); w != 0 && w != 5 {
		if name, ok := modelWidthNames[w]; ok {
			words = append(words, name)
		} else {
			words = append(words, f.Width.String())
		}
	}
	if w := int(f.Weight); w != 0 && w != 400 {
		r := (w + 50) / 100 * 100
		r = max(100, min(900, r))
		tag := modelWeightNames[r]
		seen := strings.Contains(f.FamilyName, tag)
		for _, x := range words {
			seen = seen || strings.Contains(x, tag)
		}
		if !seen {
			words = append(words, tag)
		}
	} else if f.IsBold {
		words = append(words, "Bold")
	}
	if f.IsOblique {
		words = append(words, "Oblique")
	} else if f.IsItalic {
		words = append(words, "Italic")
	}
	if len(words) == 0 {
		return "Regular"
	}
	return strings.Join(words, " ")
}

// normalForm computes N(F): what Read(Write(F)) must return.
// It returns a shallow copy with the documented precedence rules applied.
func normalForm(f *sfnt.Font) *sfnt.Font {
	n := *f
	v, err := head.VersionFromString(f.Version.String())
	if err == nil {
		n.Version = v
	}
	n.ItalicAngle = math.Round(f.ItalicAngle*65536) / 65536
	n.UnderlinePosition = funit.Float64(math.Round(float64(f.UnderlinePosition)))
	n.UnderlineThickness = funit.Float64(math.Round(float64(f.UnderlineThickness)))
	n.IsItalic = f.IsItalic || f.IsOblique || f.ItalicAngle != 0
	// The subfamily string that Write puts into the name table decides whether
	// Read sets IsBold; it is modelled here independently of the library
	// (documented naming convention: width name, weight name, Oblique/Italic).
	sub := modelSubfamily(f)
	n.IsBold = f.IsBold || (strings.Contains(sub, "Bold") && !strings.Contains(sub, "Semi Bold") && !strings.Contains(sub, "Extra Bold"))
	n.IsRegular = f.IsRegular && !n.IsItalic && !n.IsBold
	if f.IsSerif {
		n.IsScript = false
	}
	// The OS/2 reader takes heights that are not positive as "not set" (the
	// specification gives 0 that meaning and a negative cap or x height
	// describes nothing); unset heights are measured on 'H' and 'x'.
	if f.CapHeight <= 0 {
		n.CapHeight = 0
		if gid := bestLookup(f, 'H'); gid != 0 {
			n.CapHeight = glyphTop(f, gid)
		}
	}
	if f.XHeight <= 0 {
		n.XHeight = 0
		if gid := bestLookup(f, 'x'); gid != 0 {
			n.XHeight = glyphTop(f, gid)
		}
	}
	if o, ok := f.Outlines.(*glyf.Outlines); ok {
		q := 1 / float64(f.UnitsPerEm)
		n.FontMatrix = [6]float64{q, 0, 0, q, 0, 0}
		_ = o
	}
	return &n
}

func writeFont(k *mon.Case, f *sfnt.Font, what string) ([]byte, bool) {
	buf := &bytes.Buffer{}
	var err error
	var n int64
	if k.Guard(what, func() { n, err = f.Write(buf) }) {
		return nil, false
	}
	if err != nil {
		k.Fail("mismatch", "write-error:"+what, "%s failed: %v", what, err)
		return nil, false
	}
	if n != int64(buf.Len()) {
		k.Fail("mismatch", "write-count", "%s returned %d but wrote %d bytes", what, n, buf.Len())
	}
	return buf.Bytes(), true
}

func readFont(k *mon.Case, b []byte, what string) (*sfnt.Font, bool) {
	var g *sfnt.Font
	var err error
	if k.Guard(what, func() { g, err = sfnt.Read(bytes.NewReader(b)) }) {
		return nil, false
	}
	if err != nil {
		k.Fail("mismatch", "read-error:"+what, "%s failed: %v", what, err)
		return nil, false
	}
	return g, true
}

// firstDiffField extracts a short class from a cmp diff: the struct path of
// the first difference with indices and numbers removed.
func firstDiffField(d string) string {
	path := []string{}
	for _, line := range strings.Split(d, "\n") {
		t := strings.TrimSpace(line)
		diff := strings.HasPrefix(t, "-") || strings.HasPrefix(t, "+")
		if diff {
			t = strings.TrimSpace(t[1:])
		}
		name := ""
		if i := strings.Index(t, ":"); i > 0 {
			cand := t[:i]
			ok := true
			for _, ch := range cand {
				if !(ch >= 'a' && ch <= 'z' || ch >= 'A' && ch <= 'Z' || ch >= '0' && ch <= '9' || ch == '_') {
					ok = false
				}
			}
			if ok && cand[0] >= 'A' && cand[0] <= 'Z' {
				name = cand
			}
		}
		indent := len(line) - len(strings.TrimLeft(strings.TrimLeft(line, "-+ "), " "))
		_ = indent
		if name != "" {
			depth := strings.Count(line, "\t")
			for len(path) > depth {
				path = path[:len(path)-1]
			}
			for len(path) < depth {
				path = append(path, "")
			}
			if depth > 0 {
				path[depth-1] = name
			}
		}
		if diff {
			var parts []string
			for _, p := range path {
				if p != "" {
					parts = append(parts, p)
				}
			}
			if len(parts) == 0 {
				return "?"
			}
			return strings.Join(parts, ".")
		}
	}
	return "?"
}

func fingerprint(b []byte) string {
	h := sha256.Sum256(b)
	return hex.EncodeToString(h[:8])
}

// fixedPoint checks the cycle clauses starting from a font G that was read
// from bytes: Read(Write(G)) == G and Write(Read(Write(G))) == Write(G).
func fixedPoint(k *mon.Case, g *sfnt.Font, label string) {
	b1, ok := writeFont(k, g, "Write("+label+")")
	if !ok {
		return
	}
	h, ok := readFont(k, b1, "Read(Write("+label+"))")
	if !ok {
		return
	}
	k.Eval()
	if d := diffFonts(g, h); d != "" {
		witness := "fixed-point:font-differs:" + firstDiffField(d)
		// a narrower class: the file has OS/2 weight Bold but neither the bold
		// flag nor a name table saying so; Write derives the subfamily "Bold"
		// from the weight and Read derives IsBold from that subfamily
		sub := g.Subfamily()
		if !g.IsBold && h.IsBold && strings.Contains(sub, "Bold") && !strings.Contains(sub, "Semi Bold") && !strings.Contains(sub, "Extra Bold") {
			h2 := *h
			h2.IsBold = false
			h2.IsRegular = g.IsRegular
			if diffFonts(g, &h2) == "" {
				witness = "fixed-point:IsBold-from-weight-via-written-subfamily"
			}
		}
		k.Fail("mismatch", witness, "Read(Write(G)) differs from G for G=%s (-G +reread):\n%s", label, d)
		return
	}
	b2, ok := writeFont(k, h, "Write(Read(Write("+label+")))")
	if !ok {
		return
	}
	k.Eval()
	if !bytes.Equal(b1, b2) {
		k.Fail("mismatch", "fixed-point:bytes-differ", "second write differs from first write for %s: %d vs %d bytes, first difference at %d", label, len(b1), len(b2), firstDiff(b1, b2))
	}
}

func firstDiff(a, b []byte) int {
	for i := 0; i < len(a) && i < len(b); i++ {
		if a[i] != b[i] {
			return i
		}
	}
	return min(len(a), len(b))
}

func c01opts(k *mon.Case) fontgen.Opts {
	r := k.Rng
	o := fontgen.Opts{}
	o.Kind = []string{"glyf", "cff", "cid"}[k.Index%3]
	switch k.Index / 3 % 8 {
	case 0:
		o.MaxGlyphs = 3
	case 1:
		o.MinGlyphs, o.MaxGlyphs = 255, 257
		if k.Index/24%2 == 1 {
			o.MinGlyphs, o.MaxGlyphs = 258, 262
		}
	case 2:
		if k.C.Thorough() || k.Index%5 == 0 {
			o.MinGlyphs, o.MaxGlyphs = 900, 1100
		}
	}
	if k.C.Thorough() && k.Index%1000 == 11 || k.Index == 9 {
		// the largest number of glyphs there can be (quick tier: one
		// TrueType font; a CID-keyed one costs minutes)
		o.MinGlyphs, o.MaxGlyphs = 65535, 65535
		if o.Kind == "cff" {
			// glyph names are strings with 16-bit string ids (391 are predefined):
			// a simple CFF font cannot name 65535 glyphs individually
			o.MinGlyphs, o.MaxGlyphs = 60000, 60000
		}
	} else if k.C.Thorough() && k.Index%200 == 7 {
		o.MinGlyphs, o.MaxGlyphs = 9000, 11000
	}
	if r.IntN(2) == 0 {
		o.Layout = "subset"
	}
	return o
}

// c01shiftActions renumbers the nested actions of contextual lookups after a
// lookup was inserted at position pos (the inserted lookup is left alone).
func c01shiftActions(ll gtab.LookupList, pos int, inserted *gtab.LookupTable) {
	fix := func(acts []gtab.SeqLookup) {
		for i := range acts {
			if int(acts[i].LookupListIndex) >= pos {
				acts[i].LookupListIndex++
			}
		}
	}
	for _, l := range ll {
		if l == inserted {
			continue
		}
		for _, st := range l.Subtables {
			switch s := st.(type) {
			case *gtab.SeqContext1:
				for _, rs := range s.Rules {
					for _, ru := range rs {
						fix(ru.Actions)
					}
				}
			case *gtab.SeqContext2:
				for _, rs := range s.Rules {
					for _, ru := range rs {
						fix(ru.Actions)
					}
				}
			case *gtab.SeqContext3:
				fix(s.Actions)
			case *gtab.ChainedSeqContext1:
				for _, rs := range s.Rules {
					for _, ru := range rs {
						fix(ru.Actions)
					}
				}
			case *gtab.ChainedSeqContext2:
				for _, rs := range s.Rules {
					for _, ru := range rs {
						fix(ru.Actions)
					}
				}
			case *gtab.ChainedSeqContext3:
				fix(s.Actions)
			}
		}
	}
}

// c01roundTrip is the deciding sequence for a constructed font: Write twice
// (and, for every sixth case, once more in a second process), Read, compare
// with the normal form, and the byte fixed point.
func c01roundTrip(c *mon.Ctx, k *mon.Case, stratum string, f *sfnt.Font, info *fontgen.Info, desc string, childOut string) {
	b1, ok := writeFont(k, f, "Write(F)")
	if !ok {
		return
	}
	if childOut != "" {
		os.WriteFile(childOut, []byte(fingerprint(b1)), 0o644)
		return
	}
	k.DistinctBytes(b1)
	k.Class("kind=" + info.Kind)
	k.Class("kind=" + info.Kind + ",layout=" + map[bool]string{true: "yes", false: "no"}[f.Gsub != nil || f.Gpos != nil])
	k.Class("cmap=" + info.CMap)
	switch {
	case info.NGlyphs <= 3:
		k.Class("glyphs<=3")
	case info.NGlyphs >= 255 && info.NGlyphs <= 257:
		k.Class("glyphs~256")
	case info.NGlyphs >= 900:
		k.Class("glyphs>=900")
	default:
		k.Class("glyphs 4..254")
	}
	for _, cl := range info.Classes {
		k.Class(cl)
	}
	// determinism
	b1b, ok := writeFont(k, f, "Write(F)")
	if !ok {
		return
	}
	k.Eval()
	if !bytes.Equal(b1, b1b) {
		k.Fail("mismatch", "nondeterministic-write", "two calls of Write(F) differ at byte %d (%s)", firstDiff(b1, b1b), desc)
		return
	}
	if k.Index%6 == 0 {
		// once more in a second OS process
		exe, _ := os.Executable()
		tmp := filepath.Join(c.OutDir, fmt.Sprintf("child-%d-%d", c.Shard, k.Index))
		os.MkdirAll(tmp, 0o755)
		hf := filepath.Join(tmp, "hash")
		cmd := exec.Command(exe, "-worker", "-prop", "C01", "-tier", c.Tier, "-seed", fmt.Sprint(c.Seed), "-only", fmt.Sprintf("%s:%d", stratum, k.Index), "-out", tmp, "-nshards", "1")
		cmd.Env = append(os.Environ(), "C01_CHILD_HASH="+hf)
		if err := cmd.Run(); err == nil {
			hb, _ := os.ReadFile(hf)
			k.Eval()
			if string(hb) != fingerprint(b1) {
				k.Fail("mismatch", "nondeterministic-write:cross-process", "Write(F) in a second process gives different bytes (%s vs %s; %s)", hb, fingerprint(b1), desc)
			}
			k.Class("cross-process-determinism")
		}
		os.RemoveAll(tmp)
	}
	// lossless
	g, ok := readFont(k, b1, "Read(Write(F))")
	if !ok {
		return
	}
	k.Eval()
	want := normalForm(f)
	if f.Gsub == nil {
		// synthetic standard ligatures: compared semantically
		wantLig := map[string]map[glyph.ID]bool{}
		if !f.IsFixedPitch() {
			wantLig = stdLigatures(f)
		}
		got := ligatureSet(g.Gsub)
		if !sameLigatures(wantLig, got) {
			k.Fail("mismatch", "lossless:synthetic-ligatures", "font without GSUB: ligature rules after reading %v, expected %v (%s)", got, wantLig, desc)
		}
		if len(wantLig) > 0 {
			k.Class("rule:synthetic-ligatures")
		}
		want.Gsub = g.Gsub
	}
	if d := diffFonts(want, g); d != "" {
		k.Fail("mismatch", "lossless:font-differs:"+firstDiffField(d), "Read(Write(F)) differs from N(F) (%s) (-want +got):\n%s", desc, d)
		return
	}
	// fixed point from G
	fixedPoint(k, g, "Read(Write(F))")
	if k.Index < 3 {
		k.Sample(desc + fmt.Sprintf(" bytes=%d sha=%s", len(b1), fingerprint(b1)))
	}
}

var (
	c01bigTagsOnce sync.Once
	c01bigTags     []language.Tag
)

func runC01(c *mon.Ctx) {
	childOut := os.Getenv("C01_CHILD_HASH")
	c.Stratum("constructed", c.N(500, 6000), func(k *mon.Case) {
		o := c01opts(k)
		f, info := fontgen.Font(k.Rng, o)
		if f.CreationTime.IsZero() && f.ModificationTime.IsZero() {
			f.ModificationTime = f.ModificationTime.AddDate(2001, 0, 0)
		}
		desc := fmt.Sprintf("kind=%s glyphs=%d cmap=%s layout=%s", info.Kind, info.NGlyphs, info.CMap, info.Layout)
		c01roundTrip(c, k, "constructed", f, info, desc, childOut)
	})
	c.Stratum("cff-offset-sweep", c.N(320, 6000), func(k *mon.Case) {
		// small CFF fonts whose copyright string grows byte by byte: the
		// section offsets inside the CFF table cross the sizes at which an
		// offset operand needs one more byte (the writer lays the table out
		// until the offsets stop moving)
		r := k.Rng
		f, info := fontgen.Font(r, fontgen.Opts{Kind: []string{"cff", "cid"}[k.Index%2], MinGlyphs: 1 + k.Index/2%8, MaxGlyphs: 1 + k.Index/2%8, Plain: true, CMap: "4"})
		if f.CreationTime.IsZero() && f.ModificationTime.IsZero() {
			f.ModificationTime = f.ModificationTime.AddDate(2001, 0, 0)
		}
		l := 780 + (k.Index/16)%400
		f.Copyright = strings.Repeat("c", l)
		desc := fmt.Sprintf("kind=%s glyphs=%d copyright=%d bytes", info.Kind, info.NGlyphs, l)
		c01roundTrip(c, k, "cff-offset-sweep", f, info, desc, childOut)
	})
	// what is written is a function of the font value at the time of the
	// call: two equal fonts, one of which was written and queried before,
	// receive the same in-place edits and must then be written as the same
	// bytes
	c.Stratum("rewrite-after-edit", c.N(240, 8000), func(k *mon.Case) {
		r := k.Rng
		a, b := r.Uint64(), r.Uint64()
		o := fontgen.Opts{Kind: []string{"glyf", "cff", "cid"}[k.Index%3], MinGlyphs: 2, MaxGlyphs: 40}
		if k.Index/3%2 == 0 {
			o.Layout = "subset"
		}
		mk := func() *sfnt.Font {
			f, _ := fontgen.Font(rand.New(rand.NewPCG(a, b)), o)
			if f.CreationTime.IsZero() && f.ModificationTime.IsZero() {
				f.ModificationTime = f.ModificationTime.AddDate(2001, 0, 0)
			}
			if co, ok := f.Outlines.(*cff.Outlines); ok && k.Index/6%2 == 0 {
				// fonts constructed in memory can have fractional widths
				for i, g := range co.Glyphs {
					if i%3 == 1 {
						g.Width += 0.5
					}
				}
			}
			return f
		}
		used, fresh := mk(), mk()
		before, ok := writeFont(k, used, "Write(F)")
		if !ok {
			return
		}
		if k.Guard("queries", func() {
			used.Widths()
			used.GlyphBBoxes()
			used.FontBBox()
			used.IsFixedPitch()
			used.PostScriptName()
			if used.CMapTable != nil {
				used.CMapTable.GetBest()
			}
			for i := 0; i < used.NumGlyphs(); i++ {
				used.GlyphName(glyph.ID(i))
				used.GlyphWidth(glyph.ID(i))
			}
		}) {
			return
		}
		ea, eb := r.Uint64(), r.Uint64()
		var edits []string
		edit := func(f *sfnt.Font) {
			er := rand.New(rand.NewPCG(ea, eb))
			edits = edits[:0]
			n := f.NumGlyphs()
			for rep := 0; rep < 1+er.IntN(4); rep++ {
				g := er.IntN(n)
				switch er.IntN(10) {
				case 9: // a glyph name, in place
					switch ol := f.Outlines.(type) {
					case *glyf.Outlines:
						if g < len(ol.Names) && g > 0 {
							ol.Names[g] = fmt.Sprintf("renamed.%d", g)
						}
					case *cff.Outlines:
						if !ol.IsCIDKeyed() && g > 0 {
							ol.Glyphs[g].Name = fmt.Sprintf("renamed.%d", g)
						}
					}
					edits = append(edits, fmt.Sprintf("name of glyph %d", g))
				case 0:
					f.FamilyName += "X"
					edits = append(edits, "family name")
				case 1:
					f.Ascent += 7
					f.UnderlinePosition -= 3
					edits = append(edits, "ascent, underline")
				case 2:
					f.CreationTime = f.CreationTime.AddDate(0, 0, 1)
					f.ModificationTime = f.ModificationTime.AddDate(0, 1, 0)
					edits = append(edits, "timestamps")
				case 3, 4: // a width
					switch ol := f.Outlines.(type) {
					case *glyf.Outlines:
						if g < len(ol.Widths) {
							ol.Widths[g] += 13
						}
					case *cff.Outlines:
						ol.Glyphs[g].Width += 13
					}
					edits = append(edits, fmt.Sprintf("width of glyph %d", g))
				case 5, 6: // an outline, in place
					switch ol := f.Outlines.(type) {
					case *glyf.Outlines:
						if ol.Glyphs[g] != nil {
							ol.Glyphs[g].LLx -= 5
							ol.Glyphs[g].URy += 5
						}
						h := er.IntN(n)
						ol.Glyphs[g], ol.Glyphs[h] = ol.Glyphs[h], ol.Glyphs[g]
						edits = append(edits, fmt.Sprintf("box of glyph %d, glyphs %d and %d exchanged", g, g, h))
					case *cff.Outlines:
						for _, cmd := range ol.Glyphs[g].Cmds {
							if cmd.Op == cff.OpMoveTo || cmd.Op == cff.OpLineTo || cmd.Op == cff.OpCurveTo {
								for j := 0; j+1 < len(cmd.Args); j += 2 {
									cmd.Args[j], cmd.Args[j+1] = cmd.Args[j+1], cmd.Args[j]
								}
							}
						}
						edits = append(edits, fmt.Sprintf("outline of glyph %d mirrored in place", g))
					}
				case 7: // the character map
					if f.CMapTable != nil {
						keys := maps.Keys(f.CMapTable)
						sort.Slice(keys, func(i, j int) bool {
							if keys[i].PlatformID != keys[j].PlatformID {
								return keys[i].PlatformID < keys[j].PlatformID
							}
							if keys[i].EncodingID != keys[j].EncodingID {
								return keys[i].EncodingID < keys[j].EncodingID
							}
							return keys[i].Language < keys[j].Language
						})
						m := cmap.Format4{}
						for c := 0; c < 1+er.IntN(20); c++ {
							m[uint16(0x30+er.IntN(0x60))] = glyph.ID(er.IntN(n))
						}
						f.CMapTable[keys[er.IntN(len(keys))]] = m.Encode(0)
						edits = append(edits, "one cmap subtable replaced")
					}
				case 8: // a lookup, in place
					if f.Gsub != nil && len(f.Gsub.LookupList) > 0 {
						l := f.Gsub.LookupList[er.IntN(len(f.Gsub.LookupList))]
						l.Meta.LookupFlags ^= gtab.IgnoreMarks
						if len(l.Subtables) > 1 {
							l.Subtables[0], l.Subtables[1] = l.Subtables[1], l.Subtables[0]
						}
						edits = append(edits, "flags and subtable order of a GSUB lookup")
					}
				}
			}
		}
		var outU, outF []byte
		var errU, errF error
		wr := func(f *sfnt.Font) ([]byte, error) {
			buf := &bytes.Buffer{}
			_, err := f.Write(buf)
			return buf.Bytes(), err
		}
		if k.Guard("edit+Write", func() {
			edit(used)
			outU, errU = wr(used)
			edit(fresh)
			outF, errF = wr(fresh)
		}) {
			return
		}
		k.Eval()
		desc := fmt.Sprintf("kind=%s layout=%q edits=%v", o.Kind, o.Layout, edits)
		switch {
		case (errU == nil) != (errF == nil):
			k.Fail("mismatch", "history:write-after-edit-error-differs", "the font that was written before: %v; the equal font that was not: %v (%s)", errU, errF, desc)
		case errU != nil:
			k.Class("rewrite:both-refused")
		case !bytes.Equal(outU, outF):
			at := firstDiff(outU, outF)
			k.Fail("mismatch", "history:write-after-edit-differs", "two equal fonts got the same edits; the one that was written (%d bytes) and queried before is now written differently from the other: %d vs %d bytes, first difference at byte %d (%s)", len(before), len(outU), len(outF), at, desc)
		default:
			k.Class("rewrite:equal")
			if !bytes.Equal(before, outU) {
				k.Class("rewrite:edit-changed-the-bytes")
			}
			k.DistinctBytes(outU)
		}
	})
	c.Require("rewrite:equal", "rewrite:edit-changed-the-bytes", "rich-layout:script-list>1KB")

	c.Stratum("rich-layout", c.N(150, 4000), func(k *mon.Case) {
		// whole fonts whose GSUB/GPOS/GDEF tables use every lookup type and
		// format the encoders support (contextual and chaining rules, mark
		// attachment, lookup flags, mark filtering sets, several scripts)
		r := k.Rng
		ro := fontgen.Opts{Kind: []string{"glyf", "cff", "cid"}[k.Index%3], MinGlyphs: 8, MaxGlyphs: 300}
		if k.Index%25 == 7 {
			ro.MinGlyphs = 250
		}
		f, info := fontgen.Font(r, ro)
		if f.CreationTime.IsZero() && f.ModificationTime.IsZero() {
			f.ModificationTime = f.ModificationTime.AddDate(2001, 0, 0)
		}
		n := f.NumGlyphs()
		o := otl.Opts{MaxGID: n - 1, NumLookups: 1 + r.IntN(8), Size: []otl.Size{otl.Tiny, otl.Tiny, otl.Small}[r.IntN(3)]}
		which := r.IntN(4)
		if k.Index%25 == 7 && which == 2 {
			which = 0
		}
		if which != 1 {
			f.Gsub = otl.Info(r, otl.GSUB, o)
		}
		if which != 2 {
			o.NumLookups = 1 + r.IntN(8)
			f.Gpos = otl.Info(r, otl.GPOS, o)
		}
		if k.Index%10 == 3 {
			// a script list of more than a kilobyte: some twenty language
			// systems with 20 to 60 optional features each
			c01bigTagsOnce.Do(func() { c01bigTags = canonicalTags(c15langs) })
			for _, tb := range []*gtab.Info{f.Gsub, f.Gpos} {
				if tb == nil || len(tb.FeatureList) == 0 || len(c01bigTags) < 10 {
					continue
				}
				sl := gtab.ScriptListInfo{}
				for _, tag := range c01bigTags {
					ft := &gtab.Features{Required: 0xFFFF}
					if r.IntN(3) == 0 {
						ft.Required = gtab.FeatureIndex(r.IntN(len(tb.FeatureList)))
					}
					for j := 20 + r.IntN(40); j > 0; j-- {
						ft.Optional = append(ft.Optional, gtab.FeatureIndex(r.IntN(len(tb.FeatureList))))
					}
					sl[tag] = ft
				}
				tb.ScriptList = sl
				k.Class("rich-layout:script-list>1KB")
			}
		}
		if k.Index%25 == 7 && f.Gpos != nil {
			// one lookup whose subtables together exceed 64 KiB: the lookup
			// itself needs extension records, wherever the encoder places it
			big := &gtab.LookupTable{Meta: &gtab.LookupMetaInfo{LookupType: 2}}
			for before := 0; before <= 0x10400; {
				// (the offset of the last subtable must not fit 16 bits)
				st := otl.Subtable(r, otl.GPOS, 2, 1+r.IntN(2), otl.Opts{MaxGID: n - 1, Bytes: 24000 + r.IntN(12000), NumLookups: 1})
				big.Subtables = append(big.Subtables, st)
				before += len(c08encode(st))
			}
			big.Subtables = append(big.Subtables, otl.Subtable(r, otl.GPOS, 2, 1, otl.Opts{MaxGID: n - 1, Bytes: 2000, NumLookups: 1}))
			pos := r.IntN(len(f.Gpos.LookupList) + 1)
			ll := append(gtab.LookupList{}, f.Gpos.LookupList[:pos]...)
			ll = append(ll, big)
			ll = append(ll, f.Gpos.LookupList[pos:]...)
			// nested actions and features refer to lookups by index
			shift := func(i gtab.LookupIndex) gtab.LookupIndex {
				if int(i) >= pos {
					return i + 1
				}
				return i
			}
			for _, ft := range f.Gpos.FeatureList {
				for j := range ft.Lookups {
					ft.Lookups[j] = shift(ft.Lookups[j])
				}
			}
			f.Gpos.LookupList = ll
			c01shiftActions(ll, pos, big)
			k.Class("rich-layout:one-lookup-over-64k")
		}
		if r.IntN(3) > 0 {
			f.Gdef = otl.Gdef(r, n)
			k.Class("rich-layout:gdef")
		}
		for _, l := range []*gtab.Info{f.Gsub, f.Gpos} {
			if l == nil {
				continue
			}
			gpos := l == f.Gpos
			for _, lt := range l.LookupList {
				for _, st := range lt.Subtables {
					k.Class("rich-layout:" + c06kindName(st, gpos))
				}
			}
		}
		desc := fmt.Sprintf("kind=%s glyphs=%d cmap=%s rich layout gsub=%v gpos=%v gdef=%v", info.Kind, info.NGlyphs, info.CMap, f.Gsub != nil, f.Gpos != nil, f.Gdef != nil)
		c01roundTrip(c, k, "rich-layout", f, info, desc, childOut)
	})
	if childOut != "" {
		return
	}

	// bytes stratum: corpus files and mutants the reader accepts
	corpus := corpusFiles(c)
	c.Stratum("bytes", c.N(200, 4000), func(k *mon.Case) {
		r := k.Rng
		var b []byte
		var label string
		if k.Index < len(corpus) {
			b = corpus[k.Index].data
			label = corpus[k.Index].name
		} else if r.IntN(2) == 0 && len(corpus) > 0 {
			src := corpus[r.IntN(len(corpus))]
			b = mutateFontFile(k, src.data)
			label = "mutant of " + src.name
		} else if r.IntN(3) == 0 {
			// a file that carries a legacy kern table and no GPOS
			f, info := fontgen.Font(r, fontgen.Opts{MinGlyphs: 3})
			if f.CreationTime.IsZero() && f.ModificationTime.IsZero() {
				f.ModificationTime = f.ModificationTime.AddDate(2001, 0, 0)
			}
			wb, ok := writeFont(k, f, "Write(F)")
			if !ok {
				return
			}
			kt := kern.Info{}
			for n := 1 + r.IntN(6); n > 0; n-- {
				kt[glyph.Pair{Left: glyph.ID(r.IntN(info.NGlyphs)), Right: glyph.ID(r.IntN(info.NGlyphs))}] = funit.Int16(r.IntN(401) - 200)
			}
			b = addTable(wb, "kern", kt.Encode())
			label = "generated " + info.Kind + " with kern table"
			k.Class("bytes:kern-only")
		} else {
			f, info := fontgen.Font(r, fontgen.Opts{Layout: []string{"", "subset"}[r.IntN(2)]})
			if f.CreationTime.IsZero() && f.ModificationTime.IsZero() {
				f.ModificationTime = f.ModificationTime.AddDate(2001, 0, 0)
			}
			wb, ok := writeFont(k, f, "Write(F)")
			if !ok {
				return
			}
			b = mutateFontFile(k, wb)
			label = "mutant of generated " + info.Kind
		}
		k.Input(b)
		var g *sfnt.Font
		var err error
		if k.Guard("sfnt.Read", func() { g, err = sfnt.Read(bytes.NewReader(b)) }) {
			return
		}
		if err != nil {
			k.Class("bytes:rejected")
			return
		}
		k.Class("bytes:accepted")
		if hasUnencodable(g) {
			k.Skip("gpos5-declared-unimplemented")
			return
		}
		k.DistinctBytes(b)
		fixedPoint(k, g, label)
		if k.Index < 2 {
			k.Sample(fmt.Sprintf("%s (%d bytes)", label, len(b)))
		}
	})
	// independent files read (and re-written) at the same time: a file means
	// the same font whatever else the library is doing in other goroutines
	// (decoders and encoders must not share scratch state between calls)
	c.Stratum("concurrent-read", c.N(24, 600), func(k *mon.Case) {
		r := k.Rng
		const nFiles = 8
		datas := make([][]byte, nFiles)
		for i := range datas {
			if i%3 == 0 && len(corpus) > 0 {
				datas[i] = corpus[r.IntN(len(corpus))].data
				continue
			}
			f, _ := fontgen.Font(r, fontgen.Opts{Kind: []string{"glyf", "cff", "cid"}[i%3], MinGlyphs: 4, MaxGlyphs: 40, Layout: []string{"", "subset"}[r.IntN(2)]})
			if f.CreationTime.IsZero() && f.ModificationTime.IsZero() {
				f.ModificationTime = f.ModificationTime.AddDate(2001, 0, 0)
			}
			b, ok := writeFont(k, f, "Write(F)")
			if !ok {
				return
			}
			datas[i] = b
		}
		digestOf := func(data []byte) string {
			g, err := sfnt.Read(bytes.NewReader(data))
			if err != nil {
				return "read error: " + err.Error()
			}
			if hasUnencodable(g) {
				return fmt.Sprint("unencodable ", g.NumGlyphs())
			}
			buf := &bytes.Buffer{}
			if _, err := g.Write(buf); err != nil {
				return "write error: " + err.Error()
			}
			return fingerprint(buf.Bytes())
		}
		alone := make([]string, nFiles)
		for i, d := range datas {
			var s string
			if k.Guard("Read+Write", func() { s = digestOf(d) }) {
				return
			}
			alone[i] = s
		}
		for round := 0; round < 3; round++ {
			got := make([]string, nFiles)
			var wg sync.WaitGroup
			for i := range datas {
				wg.Add(1)
				go func(i int) {
					defer wg.Done()
					if pv, _ := mon.Try(func() { got[i] = digestOf(datas[i]) }); pv != nil {
						got[i] = fmt.Sprint("panic: ", pv)
					}
				}(i)
			}
			wg.Wait()
			k.Evals(nFiles)
			for i := range got {
				if got[i] != alone[i] {
					k.Fail("mismatch", "concurrent-read-differs", "file %d of %d (%d bytes) read and re-written concurrently gives %s, alone %s", i, nFiles, len(datas[i]), got[i], alone[i])
					return
				}
			}
		}
		k.Distinct("concurrent", k.Index)
		k.Class("concurrent-read")
	})
	c.Require("concurrent-read")
	c.Require("rich-layout:one-lookup-over-64k", "rich-layout:gdef", "rich-layout:gsub5.2", "rich-layout:gsub6.3", "rich-layout:gsub8.1", "rich-layout:gpos4.1", "rich-layout:gpos6.1", "rich-layout:gpos8.2")
	c.Require("kind=glyf,layout=yes", "kind=glyf,layout=no", "kind=cff,layout=yes", "kind=cff,layout=no", "kind=cid,layout=yes", "kind=cid,layout=no",
		"cross-process-determinism", "bytes:accepted", "rule:capheight-from-H", "rule:italic-angle-rounding", "rule:underline-rounding", "rule:version-rounding", "glyphs~256")
}

// hasUnencodable reports whether the font carries a subtable kind whose
// encoder the library declares unimplemented (GPOS type 5).
func hasUnencodable(f *sfnt.Font) bool {
	if f.Gpos == nil {
		return false
	}
	for _, l := range f.Gpos.LookupList {
		for _, s := range l.Subtables {
			if _, ok := s.(*gtab.Gpos5_1); ok {
				return true
			}
		}
	}
	return false
}
