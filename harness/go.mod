module verif/harness

go 1.23.2

require (
	github.com/google/go-cmp v0.6.0
	golang.org/x/exp v0.0.0-20240409090435-93d18d7e34b8
	golang.org/x/image v0.18.0
	golang.org/x/text v0.16.0
	seehuhn.de/go/geom v0.0.0-20250115091222-3cab61c7096a
	seehuhn.de/go/postscript v0.5.1-0.20250316102127-8863e3a3d4c4
	seehuhn.de/go/sfnt v0.0.0
)

require seehuhn.de/go/dijkstra v0.9.3 // indirect

replace seehuhn.de/go/sfnt => /repo
