// vcheck is driver and worker of the runtime monitors.
//
//	vcheck -prop C17 -tier quick            driver: spawns workers, merges, writes evidence
//	vcheck -worker -prop C17 -shard 3 ...   worker: runs the cases of one shard
//	vcheck -replay replays/C17-….json       re-executes the case of a replay file
package main

import (
	"encoding/json"
	"flag"
	"fmt"
	"os"
	"path/filepath"
	"strconv"
	"strings"

	"verif/harness/internal/mon"
	_ "verif/harness/props"
)

func main() {
	var (
		worker  = flag.Bool("worker", false, "run as worker")
		prop    = flag.String("prop", "", "property id")
		tier    = flag.String("tier", "quick", "quick|thorough")
		seed    = flag.Int64("seed", -1, "seed (default: VERIF_SEED or 1)")
		shard   = flag.Int("shard", 0, "")
		nshards = flag.Int("nshards", 1, "")
		out     = flag.String("out", "", "worker output directory")
		only    = flag.String("only", "", "stratum:index")
		skip    = flag.String("skip", "", "comma separated cases to skip")
		hard    = flag.Int("hard", 0, "hard per-case bound (s)")
		soft    = flag.Int("soft", 0, "soft per-case bound (s)")
		replay  = flag.String("replay", "", "replay file")
		verif   = flag.String("verif", "/verif", "verif directory")
		list    = flag.Bool("list", false, "list properties")
	)
	flag.Parse()
	if *list {
		fmt.Println(strings.Join(mon.Registered(), " "))
		return
	}
	if *seed < 0 {
		*seed = 1
		if s := os.Getenv("VERIF_SEED"); s != "" {
			if v, err := strconv.ParseInt(s, 10, 64); err == nil && v >= 0 {
				*seed = v
			}
		}
	}
	if t := os.Getenv("VERIF_TIER"); t != "" && !*worker && *replay == "" {
		// the command line wins; VERIF_TIER is only a default
		set := false
		flag.Visit(func(f *flag.Flag) { set = set || f.Name == "tier" })
		if !set && (t == "quick" || t == "thorough") {
			*tier = t
		}
	}
	if *replay != "" {
		os.Exit(doReplay(*replay))
	}
	if *worker {
		c := &mon.Ctx{Prop: *prop, Tier: *tier, Seed: *seed, Shard: *shard, NShards: *nshards,
			OutDir: *out, Only: *only, SoftSec: *soft, HardSec: *hard, SkipSet: map[string]bool{}}
		for _, s := range strings.Split(*skip, ",") {
			if s != "" {
				c.SkipSet[s] = true
			}
		}
		if err := mon.RunWorker(c); err != nil {
			fmt.Fprintln(os.Stderr, "worker error:", err)
			os.Exit(4)
		}
		return
	}
	exe, _ := os.Executable()
	os.Exit(mon.Drive(mon.DriverOpts{Prop: *prop, Tier: *tier, Seed: *seed, VerifDir: *verif, Exe: exe}))
}

func doReplay(path string) int {
	b, err := os.ReadFile(path)
	if err != nil {
		fmt.Println(err)
		return 2
	}
	var r struct {
		Property  string        `json:"property"`
		Tier      string        `json:"tier"`
		Seed      int64         `json:"seed"`
		Violation mon.Violation `json:"violation"`
	}
	if err := json.Unmarshal(b, &r); err != nil {
		fmt.Println(err)
		return 2
	}
	dir, _ := os.MkdirTemp("", "vreplay")
	defer os.RemoveAll(dir)
	c := &mon.Ctx{Prop: r.Property, Tier: r.Tier, Seed: r.Seed, Shard: 0, NShards: 1, OutDir: dir,
		Only: fmt.Sprintf("%s:%d", r.Violation.Stratum, r.Violation.Index)}
	if err := mon.RunWorker(c); err != nil {
		fmt.Println(err)
		return 2
	}
	rb, _ := os.ReadFile(filepath.Join(dir, r.Property+".0.json"))
	var res mon.Result
	json.Unmarshal(rb, &res)
	fmt.Printf("replayed %s case %s:%d: %d violation(s)\n", r.Property, r.Violation.Stratum, r.Violation.Index, len(res.Violations))
	for _, v := range res.Violations {
		fmt.Printf("  kind=%s witness=%q\n  %s\n", v.Kind, v.Witness, v.Detail)
	}
	if len(res.Violations) > 0 {
		return 1
	}
	return 0
}
