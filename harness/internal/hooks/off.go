//go:build !verif

package hooks

import (
	"seehuhn.de/go/sfnt/opentype/gtab"
	"seehuhn.de/go/sfnt/parser"
)

const On = false

func ParserState(p *parser.Parser) (from int64, pos, used int, ok bool) { return 0, 0, 0, false }

func Pending(ctx *gtab.Context) (int, bool) { return 0, false }

func SubtableSizes(s gtab.Subtable) (declared, emitted int, ok bool) { return 0, 0, false }

func TagTables() (scripts, langs map[string]string, ok bool) { return nil, nil, false }

func Languages() (mac, win map[uint16]string, ok bool) { return nil, nil, false }
