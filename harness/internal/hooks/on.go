//go:build verif

// Package hooks wraps the build-tag guarded observers in /repo.  With the tag
// off every function reports "unavailable" and the monitors lose only the
// direct observations (see DESIGN.md section 4).
package hooks

import (
	"seehuhn.de/go/sfnt/name"
	"seehuhn.de/go/sfnt/opentype/gtab"
	"seehuhn.de/go/sfnt/parser"
)

const On = true

func ParserState(p *parser.Parser) (from int64, pos, used int, ok bool) {
	from, pos, used = p.VerifState()
	return from, pos, used, true
}

func Pending(ctx *gtab.Context) (int, bool) { return ctx.VerifPending(), true }

func SubtableSizes(s gtab.Subtable) (declared, emitted int, ok bool) {
	d, e := gtab.VerifSubtableSizes(s)
	return d, e, true
}

func TagTables() (scripts, langs map[string]string, ok bool) {
	s, l := gtab.VerifTagTables()
	return s, l, true
}

func Languages() (mac, win map[uint16]string, ok bool) {
	m, w := name.VerifLanguages()
	return m, w, true
}
