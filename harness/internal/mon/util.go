package mon

import (
	"encoding/base64"
	"os"
)

func b64(b []byte) string { return base64.StdEncoding.EncodeToString(b) }

func unb64(s string) ([]byte, error) { return base64.StdEncoding.DecodeString(s) }

// VerifDir is the root of the verification tree (set by the driver).
func VerifDir() string {
	if d := os.Getenv("VERIF_DIR"); d != "" {
		return d
	}
	return "/verif"
}
