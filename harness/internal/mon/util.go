package mon

import "encoding/base64"

func b64(b []byte) string { return base64.StdEncoding.EncodeToString(b) }

func unb64(s string) ([]byte, error) { return base64.StdEncoding.DecodeString(s) }
