// Package mon is the shared monitor runtime: case scheduling over shards,
// per-case journal, watchdog, panic capture, counters and evidence.
package mon

import (
	"crypto/sha256"
	"encoding/base64"
	"encoding/binary"
	"encoding/json"
	"fmt"
	"hash/fnv"
	"math/rand/v2"
	"os"
	"runtime"
	"runtime/debug"
	"sort"
	"strings"
	"sync"
	"sync/atomic"
	"time"

	"verif/harness/internal/hooks"
)

// Violation is one refuting observation.
type Violation struct {
	Kind    string `json:"kind"`    // mismatch | panic | hang | crash | resource | race | leak
	Witness string `json:"witness"` // witness class; known findings match on this
	Stratum string `json:"stratum"`
	Index   int    `json:"index"`
	Detail  string `json:"detail"`
	Input   string `json:"input_b64,omitempty"`
}

// Result is what one worker (shard) reports.
type Result struct {
	Prop        string             `json:"prop"`
	Tier        string             `json:"tier"`
	Seed        int64              `json:"seed"`
	Shard       int                `json:"shard"`
	Evaluations int64              `json:"evaluations"`
	Cases       int64              `json:"cases"`
	Classes     map[string]int64   `json:"classes"`
	Skipped     map[string]int64   `json:"skipped"`
	Max         map[string]float64 `json:"max"`
	Samples     []any              `json:"samples"`
	Violations  []Violation        `json:"violations"`
	NViol       int64              `json:"nviol"`
	Required    []string           `json:"required"`
	Notes       []string           `json:"notes"`
	Hooks       bool               `json:"hooks"`
	Slow        []string           `json:"slow"`
	Done        bool               `json:"done"`
	DistinctN   int64              `json:"distinct_n"` // cases distinct by construction (enumerations)
}

// Ctx is the per-worker context handed to a property's run function.
type Ctx struct {
	Prop    string
	Tier    string
	Seed    int64
	Shard   int
	NShards int
	OutDir  string
	Only    string          // "stratum:index" → run just that case
	SkipSet map[string]bool // cases to skip (already diagnosed)
	SoftSec int
	HardSec int

	mu       sync.Mutex
	res      Result
	distinct map[uint64]struct{}
	journal  *os.File
	curCase  atomic.Value // string
	curStart atomic.Int64
	sampleN  map[string]int
}

type PropFunc func(c *Ctx)

var registry = map[string]PropFunc{}

func Register(id string, f PropFunc) { registry[id] = f }
func Lookup(id string) PropFunc      { return registry[id] }
func Registered() []string {
	var ids []string
	for k := range registry {
		ids = append(ids, k)
	}
	sort.Strings(ids)
	return ids
}

func (c *Ctx) Thorough() bool { return c.Tier == "thorough" }

// N picks a count by tier.
func (c *Ctx) N(quick, thorough int) int {
	if c.Thorough() {
		return thorough
	}
	return quick
}

// Rand returns the deterministic PRNG of (seed, property, stratum, index).
func (c *Ctx) Rand(stratum string, index int) *rand.Rand {
	h := sha256.New()
	fmt.Fprintf(h, "%d|%s|%s|%d", c.Seed, c.Prop, stratum, index)
	s := h.Sum(nil)
	return rand.New(rand.NewPCG(binary.LittleEndian.Uint64(s[:8]), binary.LittleEndian.Uint64(s[8:16])))
}

// Require registers coverage classes that must be observed (union over shards).
func (c *Ctx) Require(classes ...string) {
	c.mu.Lock()
	c.res.Required = append(c.res.Required, classes...)
	c.mu.Unlock()
}

func (c *Ctx) Note(format string, a ...any) {
	c.mu.Lock()
	c.res.Notes = append(c.res.Notes, fmt.Sprintf(format, a...))
	c.mu.Unlock()
}

func (c *Ctx) SetHooks(on bool) { c.res.Hooks = on }

// Case is one generated case.
type Case struct {
	C       *Ctx
	Stratum string
	Index   int
	Rng     *rand.Rand
	input   []byte
	failed  bool
}

func caseKey(stratum string, index int) string { return fmt.Sprintf("%s:%d", stratum, index) }

// Stratum runs fn for indices 0..n-1 that belong to this shard.
func (c *Ctx) Stratum(name string, n int, fn func(k *Case)) {
	for i := 0; i < n; i++ {
		if c.Only != "" {
			if c.Only != caseKey(name, i) {
				continue
			}
		} else if i%c.NShards != c.Shard {
			continue
		}
		if c.SkipSet[caseKey(name, i)] {
			continue
		}
		c.runCase(name, i, fn)
	}
}

func (c *Ctx) runCase(name string, i int, fn func(k *Case)) {
	k := &Case{C: c, Stratum: name, Index: i, Rng: c.Rand(name, i)}
	key := caseKey(name, i)
	c.writeJournal(key, nil)
	c.curCase.Store(key)
	c.curStart.Store(time.Now().UnixNano())
	c.mu.Lock()
	c.res.Cases++
	c.mu.Unlock()
	func() {
		defer func() {
			if r := recover(); r != nil {
				k.Fail("panic", "panic:uncaught:"+PanicClass(r), "uncaught panic in case: %v\n%s", r, fullStack(debug.Stack()))
			}
		}()
		fn(k)
	}()
	c.curStart.Store(0)
}

func (c *Ctx) writeJournal(key string, input []byte) {
	if c.journal == nil {
		return
	}
	line := key + "\n"
	if input != nil {
		line += base64.StdEncoding.EncodeToString(input) + "\n"
	}
	c.journal.WriteAt([]byte(line), 0)
	c.journal.Truncate(int64(len(line)))
}

// Input records the input bytes of the running case in the journal (before the
// library sees them) and remembers them for a violation report.
func (k *Case) Input(b []byte) {
	k.input = b
	k.C.writeJournal(caseKey(k.Stratum, k.Index), b)
}

// Step journals a free-form description of the next library call of the case.
func (k *Case) Step(desc string) {
	if k.C.journal == nil {
		return
	}
	k.C.writeJournal(caseKey(k.Stratum, k.Index)+" "+desc, k.input)
}

func (k *Case) Eval()       { k.Evals(1) }
func (k *Case) Evals(n int) { k.C.mu.Lock(); k.C.res.Evaluations += int64(n); k.C.mu.Unlock() }

func (k *Case) Class(name string) { k.ClassN(name, 1) }
func (k *Case) ClassN(name string, n int) {
	k.C.mu.Lock()
	k.C.res.Classes[name] += int64(n)
	k.C.mu.Unlock()
}
func (k *Case) Skip(reason string) {
	k.C.mu.Lock()
	k.C.res.Skipped[reason]++
	k.C.mu.Unlock()
}
func (k *Case) Max(name string, v float64) {
	k.C.mu.Lock()
	if old, ok := k.C.res.Max[name]; !ok || v > old {
		k.C.res.Max[name] = v
	}
	k.C.mu.Unlock()
}

// Distinct records the signature of a non-trivial case.
func (k *Case) Distinct(sig ...any) {
	h := fnv.New64a()
	fmt.Fprint(h, sig...)
	k.C.mu.Lock()
	k.C.distinct[h.Sum64()] = struct{}{}
	k.C.mu.Unlock()
}

// DistinctCount adds n cases that are pairwise distinct by construction
// (members of an enumeration), without hashing them.
func (k *Case) DistinctCount(n int) {
	k.C.mu.Lock()
	k.C.res.DistinctN += int64(n)
	k.C.mu.Unlock()
}

// DistinctBytes records a byte-string signature.
func (k *Case) DistinctBytes(b []byte) {
	h := fnv.New64a()
	h.Write(b)
	k.C.mu.Lock()
	k.C.distinct[h.Sum64()] = struct{}{}
	k.C.mu.Unlock()
}

// Sample keeps up to 2 samples per stratum.
func (k *Case) Sample(v any) {
	k.C.mu.Lock()
	defer k.C.mu.Unlock()
	if k.C.sampleN[k.Stratum] >= 2 {
		return
	}
	k.C.sampleN[k.Stratum]++
	k.C.res.Samples = append(k.C.res.Samples, map[string]any{"stratum": k.Stratum, "index": k.Index, "case": v})
}

// Failed reports whether the case already recorded a violation.
func (k *Case) Failed() bool { return k.failed }

// Fail records a violation.  witness is the class string matched against
// known findings, kind the category.
func (k *Case) Fail(kind, witness, format string, a ...any) {
	k.failed = true
	c := k.C
	c.mu.Lock()
	defer c.mu.Unlock()
	c.res.NViol++
	// keep at most 4 per witness class, 200 in total
	n := 0
	for _, v := range c.res.Violations {
		if v.Witness == witness {
			n++
		}
	}
	if n >= 4 || len(c.res.Violations) >= 200 {
		return
	}
	d := fmt.Sprintf(format, a...)
	if len(d) > 6000 {
		d = d[:6000] + "…"
	}
	v := Violation{Kind: kind, Witness: witness, Stratum: k.Stratum, Index: k.Index, Detail: d}
	if k.input != nil && len(k.input) <= 1<<20 {
		v.Input = base64.StdEncoding.EncodeToString(k.input)
	}
	c.res.Violations = append(c.res.Violations, v)
}

// Guard runs fn and turns a panic into a violation.  It reports whether fn
// panicked.
func (k *Case) Guard(what string, fn func()) (panicked bool) {
	defer func() {
		if r := recover(); r != nil {
			panicked = true
			k.Fail("panic", "panic:"+what+":"+PanicClass(r), "%s panicked: %v\n%s", what, r, trimStack(debug.Stack()))
		}
	}()
	fn()
	return false
}

// Try runs fn and returns the recovered panic value (nil if none) and stack.
func Try(fn func()) (pv any, stack string) {
	defer func() {
		if r := recover(); r != nil {
			pv = r
			stack = trimStack(debug.Stack())
		}
	}()
	fn()
	return nil, ""
}

// PanicClass gives a short, input-independent class of a panic value.
func PanicClass(r any) string {
	s := fmt.Sprint(r)
	if e, ok := r.(runtime.Error); ok {
		s = e.Error()
	}
	// strip numbers so that classes do not depend on the concrete input
	var b strings.Builder
	lastDigit := false
	for _, ch := range s {
		if ch >= '0' && ch <= '9' {
			if !lastDigit {
				b.WriteByte('N')
			}
			lastDigit = true
			continue
		}
		lastDigit = false
		b.WriteRune(ch)
	}
	s = b.String()
	if len(s) > 80 {
		s = s[:80]
	}
	return s
}

// TopFrame returns the first go-sfnt frame (function name) of a stack trace.
func TopFrame(stack string) string {
	for _, line := range strings.Split(stack, "\n") {
		if strings.HasPrefix(line, "seehuhn.de/go/sfnt") {
			if i := strings.LastIndex(line, "("); i > 0 {
				line = line[:i]
			}
			return strings.TrimPrefix(line, "seehuhn.de/go/sfnt")
		}
	}
	return "?"
}

func fullStack(b []byte) string {
	lines := strings.Split(string(b), "\n")
	for i, l := range lines {
		if strings.HasPrefix(l, "panic(") {
			lines = lines[i+2:]
			break
		}
	}
	if len(lines) > 24 {
		lines = lines[:24]
	}
	return strings.Join(lines, "\n")
}

func trimStack(b []byte) string {
	lines := strings.Split(string(b), "\n")
	// keep the frames between the panic and the first harness frame
	start := 0
	for i, l := range lines {
		if strings.HasPrefix(l, "panic(") {
			start = i + 2
			break
		}
	}
	var out []string
	for i := start; i < len(lines); i++ {
		if strings.HasPrefix(lines[i], "verif/harness/") || strings.HasPrefix(lines[i], "main.") {
			break
		}
		out = append(out, lines[i])
		if len(out) > 30 {
			break
		}
	}
	return strings.Join(out, "\n")
}

// ---- worker entry ----

// RunWorker runs one shard and writes <outdir>/<prop>.<shard>.json.
func RunWorker(c *Ctx) error {
	f := Lookup(c.Prop)
	if f == nil {
		return fmt.Errorf("unknown property %q", c.Prop)
	}
	c.res = Result{Prop: c.Prop, Tier: c.Tier, Seed: c.Seed, Shard: c.Shard,
		Classes: map[string]int64{}, Skipped: map[string]int64{}, Max: map[string]float64{}, Hooks: hooks.On}
	c.distinct = map[uint64]struct{}{}
	c.sampleN = map[string]int{}
	if c.SkipSet == nil {
		c.SkipSet = map[string]bool{}
	}
	base := fmt.Sprintf("%s/%s.%d", c.OutDir, c.Prop, c.Shard)
	j, err := os.OpenFile(base+".journal", os.O_CREATE|os.O_RDWR|os.O_TRUNC, 0o644)
	if err != nil {
		return err
	}
	c.journal = j
	if c.SoftSec == 0 {
		c.SoftSec = 20
	}
	if c.HardSec == 0 {
		c.HardSec = 120
	}
	stop := make(chan struct{})
	go c.watchdog(base, stop)
	f(c)
	close(stop)
	c.res.Done = true
	c.writeJournal("done", nil)
	return c.flush(base)
}

func (c *Ctx) flush(base string) error {
	c.mu.Lock()
	defer c.mu.Unlock()
	b, err := json.Marshal(&c.res)
	if err != nil {
		return err
	}
	if err := os.WriteFile(base+".json", b, 0o644); err != nil {
		return err
	}
	hs := make([]byte, 0, 8*len(c.distinct))
	for h := range c.distinct {
		hs = binary.LittleEndian.AppendUint64(hs, h)
	}
	return os.WriteFile(base+".distinct", hs, 0o644)
}

// watchdog: a case that runs longer than SoftSec is noted as slow; one that
// exceeds HardSec makes the worker dump its goroutines and exit with status 3
// so that the driver can replay the case in isolation.
func (c *Ctx) watchdog(base string, stop chan struct{}) {
	t := time.NewTicker(250 * time.Millisecond)
	defer t.Stop()
	noted := ""
	for {
		select {
		case <-stop:
			return
		case <-t.C:
		}
		st := c.curStart.Load()
		if st == 0 {
			continue
		}
		el := time.Since(time.Unix(0, st))
		key, _ := c.curCase.Load().(string)
		if el > time.Duration(c.SoftSec)*time.Second && noted != key {
			noted = key
			c.mu.Lock()
			c.res.Slow = append(c.res.Slow, key)
			c.mu.Unlock()
		}
		if el > time.Duration(c.HardSec)*time.Second {
			os.WriteFile(base+".hang", []byte(key), 0o644)
			buf := make([]byte, 1<<20)
			n := runtime.Stack(buf, true)
			os.Stderr.Write(buf[:n])
			os.Exit(3)
		}
	}
}
