package mon

// Resource meters used by C02 (and available to every other property):
// an allocation meter, a counting byte source and an address-space limit.
// New file; nothing in the existing runtime was changed.

import (
	"bytes"
	"io"
	"runtime"
	"runtime/debug"
	"sort"
	"strings"
	"syscall"
)

// TotalAlloc returns the cumulative number of heap bytes allocated by the
// process so far (runtime.MemStats.TotalAlloc; the read flushes the per-P
// caches, so the value is exact at the moment of the call).
func TotalAlloc() uint64 {
	var ms runtime.MemStats
	runtime.ReadMemStats(&ms)
	return ms.TotalAlloc
}

// MeasureAlloc runs fn and returns the number of heap bytes allocated while
// it ran.  The worker runs one case at a time on one goroutine, the only
// other goroutine is the watchdog ticker (a few bytes per tick).
func MeasureAlloc(fn func()) uint64 {
	a := TotalAlloc()
	fn()
	return TotalAlloc() - a
}

// SetAddressSpaceLimit sets RLIMIT_AS of the calling process, so that a
// pathological allocation kills one worker ("fatal error: out of memory",
// diagnosed by the driver from the journal) instead of the machine.
func SetAddressSpaceLimit(bytes uint64) error {
	var old syscall.Rlimit
	if err := syscall.Getrlimit(syscall.RLIMIT_AS, &old); err != nil {
		return err
	}
	lim := syscall.Rlimit{Cur: bytes, Max: old.Max}
	if old.Max != ^uint64(0) && old.Max < bytes {
		lim.Cur = old.Max
	}
	return syscall.Setrlimit(syscall.RLIMIT_AS, &lim)
}

// CountingSource is a byte string that can be handed to a decoder as
// io.Reader, io.ReaderAt, io.Seeker and parser.ReadSeekSizer.  It counts the
// calls made on it and the bytes it delivered: the logical work of a decoder
// that pulls from a reader, independent of the clock.
type CountingSource struct {
	r     *bytes.Reader
	size  int64
	Calls int64 // Read + ReadAt + Seek
	Reads int64 // Read + ReadAt
	Bytes int64 // bytes delivered

	// Limit, if > 0: when Calls first exceeds it, the stack of the caller is
	// kept in LimitStack (first library frame = who does the excessive work).
	Limit      int64
	LimitStack string
}

func NewCountingSource(b []byte) *CountingSource {
	return &CountingSource{r: bytes.NewReader(b), size: int64(len(b))}
}

func (s *CountingSource) tick() {
	s.Calls++
	if s.Limit > 0 && s.Calls == s.Limit+1 {
		s.LimitStack = string(debug.Stack())
	}
}

func (s *CountingSource) Read(p []byte) (int, error) {
	s.tick()
	s.Reads++
	n, err := s.r.Read(p)
	s.Bytes += int64(n)
	return n, err
}

func (s *CountingSource) ReadAt(p []byte, off int64) (int, error) {
	s.tick()
	s.Reads++
	n, err := s.r.ReadAt(p, off)
	s.Bytes += int64(n)
	return n, err
}

func (s *CountingSource) Seek(offset int64, whence int) (int64, error) {
	s.tick()
	return s.r.Seek(offset, whence)
}

func (s *CountingSource) Size() int64 { return s.size }

var _ io.ReadSeeker = (*CountingSource)(nil)
var _ io.ReaderAt = (*CountingSource)(nil)

// LibFrame returns the first go-sfnt function of a stack dump that is not in
// the byte-level reader package (sfnt/parser only executes what its caller
// asks for; the caller is the interesting site).  If only parser frames
// exist, the first of them is returned.
func LibFrame(stack string) string {
	first := "?"
	for _, line := range strings.Split(stack, "\n") {
		if strings.HasPrefix(line, "seehuhn.de/go/sfnt/parser.") {
			if first == "?" {
				if i := strings.LastIndex(line, "("); i > 0 {
					line = line[:i]
				}
				first = normFrame(strings.TrimPrefix(line, "seehuhn.de/go/sfnt"))
			}
			continue
		}
		if strings.HasPrefix(line, "seehuhn.de/go/sfnt") {
			if i := strings.LastIndex(line, "("); i > 0 {
				line = line[:i]
			}
			return normFrame(strings.TrimPrefix(line, "seehuhn.de/go/sfnt"))
		}
	}
	return first
}

// normFrame removes closure suffixes (".func1", ".func2.1", ".gowrap1") so
// that a frame names the enclosing library function.
func normFrame(f string) string {
	for {
		i := strings.LastIndex(f, ".")
		if i < 0 {
			return f
		}
		tail := f[i+1:]
		digits := strings.TrimLeft(tail, "0123456789") == ""
		if tail != "" && (digits || strings.HasPrefix(tail, "func") || strings.HasPrefix(tail, "gowrap")) &&
			strings.Contains(f[:i], ".") {
			f = f[:i]
			continue
		}
		return f
	}
}

// AllocSite re-runs fn with fine-grained heap profiling and returns the
// go-sfnt function that allocated most bytes (first library frame of the
// sampled allocation stacks).  Used only after a violation was established,
// to give it an input-independent witness class naming the allocation site.
func AllocSite(fn func()) string {
	old := runtime.MemProfileRate
	runtime.MemProfileRate = 8 << 10
	defer func() { runtime.MemProfileRate = old }()
	snap := func() map[string]int64 {
		runtime.GC()
		runtime.GC()
		n, _ := runtime.MemProfile(nil, true)
		var recs []runtime.MemProfileRecord
		for {
			recs = make([]runtime.MemProfileRecord, n+64)
			var ok bool
			n, ok = runtime.MemProfile(recs, true)
			if ok {
				recs = recs[:n]
				break
			}
		}
		out := map[string]int64{}
		for i := range recs {
			r := &recs[i]
			frames := runtime.CallersFrames(r.Stack())
			site := ""
			for {
				f, more := frames.Next()
				if strings.HasPrefix(f.Function, "seehuhn.de/go/sfnt") && !strings.HasPrefix(f.Function, "seehuhn.de/go/sfnt/parser.") {
					site = normFrame(strings.TrimPrefix(f.Function, "seehuhn.de/go/sfnt"))
					break
				}
				if !more {
					break
				}
			}
			if site != "" {
				out[site] += r.AllocBytes
			}
		}
		return out
	}
	before := snap()
	func() {
		defer func() { recover() }()
		fn()
	}()
	after := snap()
	type kv struct {
		k string
		v int64
	}
	var d []kv
	for k, v := range after {
		if v-before[k] > 0 {
			d = append(d, kv{k, v - before[k]})
		}
	}
	if len(d) == 0 {
		return "?"
	}
	sort.Slice(d, func(i, j int) bool {
		if d[i].v != d[j].v {
			return d[i].v > d[j].v
		}
		return d[i].k < d[j].k
	})
	return d[0].k
}
