package mon

import (
	"regexp"
	"sort"
	"strings"
)

var raceBlockRe = regexp.MustCompile(`(?s)WARNING: DATA RACE.*?==================`)

// RaceBlocks splits a race detector log into report blocks.
func RaceBlocks(log string) []string { return raceBlockRe.FindAllString(log, -1) }

// RaceKey is the pair of the first go-sfnt frames of the two stacks of a
// report block (sorted), used to de-duplicate reports.
func RaceKey(block string) string {
	var frames []string
	for _, part := range strings.Split(block, "\n\n") {
		for _, line := range strings.Split(part, "\n") {
			t := strings.TrimSpace(line)
			if strings.HasPrefix(t, "seehuhn.de/go/sfnt") {
				if i := strings.LastIndex(t, "("); i > 0 {
					t = t[:i]
				}
				frames = append(frames, strings.TrimPrefix(t, "seehuhn.de/go/sfnt"))
				break
			}
		}
		if len(frames) == 2 {
			break
		}
	}
	sort.Strings(frames)
	return strings.Join(frames, " <-> ")
}
