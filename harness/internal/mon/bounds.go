package mon

// Frozen resource bounds of property C02 ("decoders are total on untrusted
// bytes ... allocation/time linear in the input").  They are the provisional
// constants of DESIGN.md C02 (c), (d), confirmed by the calibration part of the
// "seeds" stratum of props/c02.go on the valid inputs (tables of the 12 Go
// fonts and the x/image test fonts, fonts and tables written by the library's
// encoders, accepted fuzz-corpus files).  Largest values observed there
// (evidence: max_observed "calib:..."):
//
//	source calls, absolute                       119      (constant term 4096:   34x)
//	source calls per input byte (len >= 16 KiB)  0.0019   (slope 2:            1000x)
//	heap bytes allocated, absolute               1.0 MB   (constant term 64 MiB: 66x)
//	heap bytes per input byte (len >= 16 KiB)    8.8      (slope 512:            58x)
//	calls / bound                                0.0099   (100x headroom)
//	allocation / bound                           0.0068   (147x headroom)
//
// i.e. every constant has far more than the required 8x headroom over valid
// input.  The evidence file quotes the constants (notes) together with the
// ratios observed in the run (max_observed).
const (
	// logical work of reader-based decoders: calls on the counting source
	// (Read + ReadAt + Seek) <= C02CallsConst + C02CallsPerByte*len(b)
	C02CallsConst   = 4096
	C02CallsPerByte = 2
	// bytes delivered by the source <= C02BytesPerCall * (call bound)
	C02BytesPerCall = 1024

	// heap bytes allocated during one decoder call
	// (delta of runtime.MemStats.TotalAlloc) <= C02AllocConst + C02AllocPerByte*len(b)
	C02AllocConst   = 64 << 20
	C02AllocPerByte = 512

	// safety net: address-space limit of a worker process
	C02AddressSpace = 16 << 30
)

// C02CallBound is the bound on source calls for an input of n bytes.
func C02CallBound(n int) int64 { return C02CallsConst + C02CallsPerByte*int64(n) }

// C02ByteBound is the bound on bytes delivered by the source.
func C02ByteBound(n int) int64 { return C02BytesPerCall * C02CallBound(n) }

// C02AllocBound is the bound on heap bytes allocated by one decoder call.
func C02AllocBound(n int) uint64 { return C02AllocConst + C02AllocPerByte*uint64(n) }
