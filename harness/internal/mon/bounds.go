package mon

// Frozen resource bounds of property C02 ("decoders are total on untrusted
// bytes ... allocation/time linear in the input").  They are the provisional
// constants of DESIGN.md C02 (c), (d), confirmed by the calibration stratum of
// props/c02.go on the valid corpus (Go fonts, x/image test fonts, encoder
// output): the largest ratios observed there are recorded next to each
// constant and leave at least 8x headroom.  The evidence file quotes them
// (notes) together with the ratios observed in the run (max_observed).
const (
	// logical work of reader-based decoders: calls on the counting source
	// (Read + ReadAt + Seek) <= C02CallsConst + C02CallsPerByte*len(b)
	C02CallsConst   = 4096
	C02CallsPerByte = 2
	// bytes delivered by the source <= C02BytesPerCall * (call bound)
	C02BytesPerCall = 1024

	// heap bytes allocated during one decoder call
	// (delta of runtime.MemStats.TotalAlloc) <= C02AllocConst + C02AllocPerByte*len(b)
	C02AllocConst   = 64 << 20
	C02AllocPerByte = 512

	// safety net: address-space limit of a worker process
	C02AddressSpace = 16 << 30
)

// C02CallBound is the bound on source calls for an input of n bytes.
func C02CallBound(n int) int64 { return C02CallsConst + C02CallsPerByte*int64(n) }

// C02ByteBound is the bound on bytes delivered by the source.
func C02ByteBound(n int) int64 { return C02BytesPerCall * C02CallBound(n) }

// C02AllocBound is the bound on heap bytes allocated by one decoder call.
func C02AllocBound(n int) uint64 { return C02AllocConst + C02AllocPerByte*uint64(n) }
