package mon

import (
	"bytes"
	"context"
	"encoding/binary"
	"encoding/json"
	"fmt"
	"os"
	"os/exec"
	"path/filepath"
	"regexp"
	"sort"
	"strings"
	"sync"
	"syscall"
	"time"
)

// Config is static per-property configuration.
type Config struct {
	Level       string // evidence level; default exploration
	Rule        string // how cases are generated and what counts as non-trivial
	Assumptions []string
	Shards      int // worker processes; default 16
	HardSec     int // per-case hard bound in seconds; default 120
	SoftSec     int
	Env         []string // extra environment for workers
	// RaceLogs: the workers are built with -race and write their reports to
	// {OUT}/race.<pid> (GORACE log_path); the driver turns every report block
	// into a violation of kind "race".
	RaceLogs bool
}

var configs = map[string]Config{}

func RegisterCfg(id string, cfg Config, f PropFunc) {
	registry[id] = f
	configs[id] = cfg
}

// KnownFile is the layout of /verif/known_findings.json.
type KnownFile struct {
	Findings []struct {
		Property string `json:"property"`
		ID       string `json:"id"`
		Witness  string `json:"witness"` // regexp on the violation's witness class
		What     string `json:"what"`
	} `json:"findings"`
	Fixed []string `json:"fixed"`
}

type DriverOpts struct {
	Prop     string
	Tier     string
	Seed     int64
	VerifDir string
	Exe      string
	Hooks    bool
	Replay   string
}

// Drive runs the whole check and returns the process exit code.
func Drive(o DriverOpts) int {
	t0 := time.Now()
	cfg := configs[o.Prop]
	if Lookup(o.Prop) == nil {
		fmt.Printf("INCONCLUSIVE property=%s reason=unknown-property\n", o.Prop)
		return 2
	}
	if cfg.Level == "" {
		cfg.Level = "exploration"
	}
	if cfg.Shards == 0 {
		cfg.Shards = 16
	}
	if cfg.HardSec == 0 {
		cfg.HardSec = 120
	}
	cfg.Env = append(append([]string{}, cfg.Env...), "VERIF_DIR="+o.VerifDir)
	outDir := filepath.Join(o.VerifDir, "out", o.Prop)
	for i, e := range cfg.Env {
		cfg.Env[i] = strings.ReplaceAll(e, "{OUT}", outDir)
	}
	_ = 0
	os.RemoveAll(outDir)
	os.MkdirAll(outDir, 0o755)
	os.MkdirAll(filepath.Join(o.VerifDir, "evidence"), 0o755)

	guard := 15 * time.Minute
	if o.Tier == "thorough" {
		guard = 3 * time.Hour
	}
	ctx, cancel := context.WithTimeout(context.Background(), guard)
	defer cancel()

	results := make([]*Result, cfg.Shards)
	distinct := map[uint64]struct{}{}
	var dmu sync.Mutex
	var extra []Violation
	var emu sync.Mutex
	var inconclusive []string
	var wg sync.WaitGroup
	for s := 0; s < cfg.Shards; s++ {
		wg.Add(1)
		go func(s int) {
			defer wg.Done()
			skip := []string{}
			for attempt := 0; attempt < 6; attempt++ {
				base := filepath.Join(outDir, fmt.Sprintf("%s.%d", o.Prop, s))
				os.Remove(base + ".json")
				os.Remove(base + ".hang")
				args := []string{"-worker", "-prop", o.Prop, "-tier", o.Tier, "-seed", fmt.Sprint(o.Seed),
					"-shard", fmt.Sprint(s), "-nshards", fmt.Sprint(cfg.Shards), "-out", outDir,
					"-hard", fmt.Sprint(cfg.HardSec), "-skip", strings.Join(skip, ",")}
				if cfg.SoftSec != 0 {
					args = append(args, "-soft", fmt.Sprint(cfg.SoftSec))
				}
				code, _ := runProc(ctx, o.Exe, args, base+".stderr", cfg.Env, 0)
				if ctx.Err() != nil {
					emu.Lock()
					inconclusive = append(inconclusive, "outer-guard")
					emu.Unlock()
					return
				}
				res := readResult(base + ".json")
				if code == 0 && res != nil && res.Done {
					results[s] = res
					dmu.Lock()
					readDistinct(base+".distinct", distinct)
					dmu.Unlock()
					return
				}
				// the worker died: diagnose from its journal
				key, input := readJournal(base + ".journal")
				hang := false
				if b, err := os.ReadFile(base + ".hang"); err == nil {
					hang = true
					key = strings.TrimSpace(string(b))
				}
				if key == "" || key == "done" {
					emu.Lock()
					inconclusive = append(inconclusive, fmt.Sprintf("worker-%d-died-without-journal(code=%d)", s, code))
					emu.Unlock()
					return
				}
				caseID := strings.SplitN(key, " ", 2)[0]
				v := isolate(ctx, o, cfg, outDir, caseID, hang, code, base+".stderr", input)
				emu.Lock()
				if v != nil {
					extra = append(extra, v...)
				}
				emu.Unlock()
				skip = append(skip, caseID)
			}
			emu.Lock()
			inconclusive = append(inconclusive, fmt.Sprintf("worker-%d-too-many-deaths", s))
			emu.Unlock()
		}(s)
	}
	wg.Wait()

	// merge
	merged := Result{Prop: o.Prop, Tier: o.Tier, Seed: o.Seed, Classes: map[string]int64{}, Skipped: map[string]int64{}, Max: map[string]float64{}}
	reqSet := map[string]bool{}
	noteSet := map[string]bool{}
	hooks := false
	for _, r := range results {
		if r == nil {
			continue
		}
		merged.Evaluations += r.Evaluations
		merged.Cases += r.Cases
		merged.NViol += r.NViol
		merged.DistinctN += r.DistinctN
		for k, v := range r.Classes {
			merged.Classes[k] += v
		}
		for k, v := range r.Skipped {
			merged.Skipped[k] += v
		}
		for k, v := range r.Max {
			if old, ok := merged.Max[k]; !ok || v > old {
				merged.Max[k] = v
			}
		}
		if len(merged.Samples) < 8 {
			merged.Samples = append(merged.Samples, r.Samples...)
		}
		merged.Violations = append(merged.Violations, r.Violations...)
		merged.Slow = append(merged.Slow, r.Slow...)
		for _, q := range r.Required {
			reqSet[q] = true
		}
		for _, n := range r.Notes {
			if !noteSet[n] {
				noteSet[n] = true
				merged.Notes = append(merged.Notes, n)
			}
		}
		hooks = hooks || r.Hooks
	}
	if len(merged.Samples) > 8 {
		merged.Samples = merged.Samples[:8]
	}
	merged.Violations = append(merged.Violations, extra...)
	merged.NViol += int64(len(extra))

	if cfg.RaceLogs {
		files, _ := filepath.Glob(filepath.Join(outDir, "race.*"))
		seenKey := map[string]bool{}
		for _, fn := range files {
			b, err := os.ReadFile(fn)
			if err != nil {
				continue
			}
			for _, blk := range RaceBlocks(string(b)) {
				key := RaceKey(blk)
				if seenKey[key] {
					continue
				}
				seenKey[key] = true
				if len(blk) > 3500 {
					blk = blk[:3500] + "…"
				}
				merged.Violations = append(merged.Violations, Violation{Kind: "race", Witness: "race:" + key, Stratum: "race-log", Detail: "data race reported by the race detector (" + filepath.Base(fn) + ")\n" + blk})
				merged.NViol++
			}
		}
	}

	// known findings
	var known KnownFile
	if b, err := os.ReadFile(filepath.Join(o.VerifDir, "known_findings.json")); err == nil {
		if err := json.Unmarshal(b, &known); err != nil {
			fmt.Printf("INCONCLUSIVE property=%s reason=known_findings.json-unreadable\n", o.Prop)
			return 2
		}
	}
	knownHit := map[string]int{}
	var fresh []Violation
	for _, v := range merged.Violations {
		matched := false
		for _, k := range known.Findings {
			if k.Property != o.Prop {
				continue
			}
			re, err := regexp.Compile("^(?:" + k.Witness + ")$")
			if err != nil {
				continue
			}
			if re.MatchString(v.Witness) {
				knownHit[k.ID+"\x00"+k.What]++
				matched = true
				break
			}
		}
		if !matched {
			fresh = append(fresh, v)
		}
	}

	// missing coverage targets
	var missing []string
	for q := range reqSet {
		if merged.Classes[q] == 0 {
			missing = append(missing, q)
		}
	}
	sort.Strings(missing)

	// evidence
	classNames := make([]string, 0, len(merged.Classes))
	for k := range merged.Classes {
		classNames = append(classNames, k)
	}
	sort.Strings(classNames)
	cov := map[string]any{
		"evaluations":         merged.Evaluations,
		"distinct_nontrivial": int64(len(distinct)) + merged.DistinctN,
		"rule":                cfg.Rule,
		"samples":             merged.Samples,
		"cases":               merged.Cases,
		"classes_observed":    merged.Classes,
		"n_classes_observed":  len(classNames),
		"skipped":             merged.Skipped,
		"max_observed":        merged.Max,
		"required_classes":    keys(reqSet),
		"missing_classes":     missing,
		"hooks":               map[bool]string{true: "enabled", false: "unavailable"}[hooks],
		"slow_cases":          merged.Slow,
		"notes":               merged.Notes,
		"known_findings_hit":  len(knownHit),
		"worker_processes":    cfg.Shards,
	}
	if len(merged.Samples) == 0 {
		cov["samples"] = []any{"(no sample recorded)"}
	}
	ev := map[string]any{
		"property_id": o.Prop,
		"tier":        o.Tier,
		"seed":        o.Seed,
		"level":       cfg.Level,
		"coverage":    cov,
		"assumptions": cfg.Assumptions,
		"wall_s":      time.Since(t0).Seconds(),
		"violations":  len(fresh),
	}
	eb, _ := json.MarshalIndent(ev, "", " ")
	os.WriteFile(filepath.Join(o.VerifDir, "evidence", o.Prop+".json"), eb, 0o644)

	for id := range knownHit {
		p := strings.SplitN(id, "\x00", 2)
		fmt.Printf("KNOWN-FINDING: property=%s %s [%s] (%d witnesses this run)\n", o.Prop, p[1], p[0], knownHit[id])
	}
	fmt.Printf("SUMMARY property=%s tier=%s seed=%d cases=%d evaluations=%d distinct=%d classes=%d violations=%d known=%d wall=%.1fs hooks=%v\n",
		o.Prop, o.Tier, o.Seed, merged.Cases, merged.Evaluations, int64(len(distinct))+merged.DistinctN, len(classNames), len(fresh), len(merged.Violations)-len(fresh), time.Since(t0).Seconds(), hooks)
	if len(fresh) > 0 {
		rdir := filepath.Join(o.VerifDir, "replays")
		os.MkdirAll(rdir, 0o755)
		seen := map[string]bool{}
		n := 0
		for _, v := range fresh {
			if seen[v.Witness] {
				continue
			}
			seen[v.Witness] = true
			n++
			p := filepath.Join(rdir, fmt.Sprintf("%s-%s-seed%d-%d.json", o.Prop, o.Tier, o.Seed, n))
			rb, _ := json.MarshalIndent(map[string]any{"property": o.Prop, "tier": o.Tier, "seed": o.Seed, "violation": v}, "", " ")
			os.WriteFile(p, rb, 0o644)
			fmt.Printf("VIOLATION property=%s replay=%s\n", o.Prop, p)
			d := v.Detail
			if len(d) > 1500 {
				d = d[:1500] + "…"
			}
			fmt.Printf("  kind=%s witness=%q case=%s:%d\n  %s\n", v.Kind, v.Witness, v.Stratum, v.Index, strings.ReplaceAll(d, "\n", "\n  "))
		}
		return 1
	}
	if len(inconclusive) > 0 {
		fmt.Printf("INCONCLUSIVE property=%s reason=%s\n", o.Prop, strings.Join(inconclusive, ","))
		return 2
	}
	if len(missing) > 0 {
		fmt.Printf("INCONCLUSIVE property=%s reason=coverage-target-missed:%s\n", o.Prop, strings.Join(missing, ","))
		return 2
	}
	if merged.Evaluations == 0 {
		fmt.Printf("INCONCLUSIVE property=%s reason=nothing-observed\n", o.Prop)
		return 2
	}
	return 0
}

func keys(m map[string]bool) []string {
	out := make([]string, 0, len(m))
	for k := range m {
		out = append(out, k)
	}
	sort.Strings(out)
	return out
}

// isolate replays one case alone in a fresh worker and converts the outcome
// into violations (nil when the case passes in isolation).
func isolate(ctx context.Context, o DriverOpts, cfg Config, outDir, caseID string, hang bool, code int, stderrPath string, input []byte) []Violation {
	isoDir := filepath.Join(outDir, "iso-"+sanitize(caseID))
	os.MkdirAll(isoDir, 0o755)
	args := []string{"-worker", "-prop", o.Prop, "-tier", o.Tier, "-seed", fmt.Sprint(o.Seed),
		"-shard", "0", "-nshards", "1", "-out", isoDir, "-only", caseID, "-hard", fmt.Sprint(cfg.HardSec)}
	base := filepath.Join(isoDir, o.Prop+".0")
	icode, timedOut := runProc(ctx, o.Exe, args, base+".stderr", cfg.Env, time.Duration(cfg.HardSec+60)*time.Second)
	st, ix := splitCase(caseID)
	res := readResult(base + ".json")
	if icode == 0 && res != nil && res.Done {
		// passes (or reports ordinary violations) in isolation
		if len(res.Violations) > 0 {
			return res.Violations
		}
		return nil
	}
	eb, _ := os.ReadFile(base + ".stderr")
	tail := string(eb)
	if len(tail) > 5000 {
		tail = tail[:2500] + "\n…\n" + tail[len(tail)-2500:]
	}
	_, jin := readJournal(base + ".journal")
	if jin != nil {
		input = jin
	}
	v := Violation{Stratum: st, Index: ix}
	if len(input) > 0 && len(input) <= 1<<20 {
		v.Input = b64(input)
	}
	if _, err := os.Stat(base + ".hang"); err == nil || timedOut {
		v.Kind = "hang"
		v.Witness = "hang:" + hangFrame(string(eb))
		v.Detail = fmt.Sprintf("case %s did not finish within the hard bound of %d s when run alone\n%s", caseID, cfg.HardSec, tail)
		return []Violation{v}
	}
	v.Kind = "crash"
	v.Witness = "crash:" + crashClass(string(eb))
	v.Detail = fmt.Sprintf("worker died (exit %d) on case %s when run alone\n%s", icode, caseID, tail)
	return []Violation{v}
}

func splitCase(id string) (string, int) {
	i := strings.LastIndex(id, ":")
	if i < 0 {
		return id, 0
	}
	var n int
	fmt.Sscan(id[i+1:], &n)
	return id[:i], n
}

func sanitize(s string) string {
	return strings.Map(func(r rune) rune {
		if r == '/' || r == ':' || r == ' ' {
			return '_'
		}
		return r
	}, s)
}

var frameRe = regexp.MustCompile(`(?m)^seehuhn\.de/go/sfnt([^\s(]*(?:\([^)]*\))?[^\s(]*)\(`)

func crashClass(stderr string) string {
	first := ""
	for _, l := range strings.Split(stderr, "\n") {
		if strings.HasPrefix(l, "panic:") || strings.HasPrefix(l, "fatal error:") || strings.HasPrefix(l, "runtime:") {
			first = l
			break
		}
	}
	m := frameRe.FindStringSubmatch(stderr)
	fr := "?"
	if m != nil {
		fr = m[1]
	}
	return PanicClass(first) + "@" + fr
}

func hangFrame(stderr string) string {
	m := frameRe.FindStringSubmatch(stderr)
	if m != nil {
		return m[1]
	}
	return "?"
}

func runProc(ctx context.Context, exe string, args []string, stderrPath string, env []string, timeout time.Duration) (code int, timedOut bool) {
	c := ctx
	if timeout > 0 {
		var cancel context.CancelFunc
		c, cancel = context.WithTimeout(ctx, timeout)
		defer cancel()
	}
	cmd := exec.CommandContext(c, exe, args...)
	cmd.Env = append(os.Environ(), env...)
	f, err := os.Create(stderrPath)
	if err == nil {
		defer f.Close()
		cmd.Stderr = f
		cmd.Stdout = f
	}
	cmd.Cancel = func() error { return cmd.Process.Signal(syscall.SIGQUIT) }
	cmd.WaitDelay = 10 * time.Second
	err = cmd.Run()
	if c.Err() != nil {
		return -1, true
	}
	if err != nil {
		if ee, ok := err.(*exec.ExitError); ok {
			return ee.ExitCode(), false
		}
		return -2, false
	}
	return 0, false
}

func readResult(p string) *Result {
	b, err := os.ReadFile(p)
	if err != nil {
		return nil
	}
	var r Result
	if json.Unmarshal(b, &r) != nil {
		return nil
	}
	return &r
}

func readDistinct(p string, into map[uint64]struct{}) {
	b, err := os.ReadFile(p)
	if err != nil {
		return
	}
	for len(b) >= 8 {
		into[binary.LittleEndian.Uint64(b)] = struct{}{}
		b = b[8:]
	}
}

func readJournal(p string) (key string, input []byte) {
	b, err := os.ReadFile(p)
	if err != nil {
		return "", nil
	}
	parts := bytes.SplitN(b, []byte("\n"), 3)
	if len(parts) >= 1 {
		key = string(parts[0])
	}
	if len(parts) >= 2 && len(parts[1]) > 0 {
		input, _ = unb64(string(parts[1]))
	}
	return
}
