// Package bytesmut holds the byte-level mutators of DESIGN.md section 3.1:
// bit flips, aligned 16/32-bit field rewrites with interesting values,
// truncation, block duplication / deletion / splice between seeds, offset
// re-pointing and random bytes behind a valid magic/version prefix.
//
// Every function returns a fresh slice; the seed is never modified.
package bytesmut

import (
	"encoding/binary"
	"math/rand/v2"
)

func clone(b []byte) []byte { return append([]byte(nil), b...) }

// BitFlip flips 1..4 random bits.
func BitFlip(r *rand.Rand, b []byte) []byte {
	out := clone(b)
	if len(out) == 0 {
		return out
	}
	n := 1 + r.IntN(4)
	for i := 0; i < n; i++ {
		p := r.IntN(len(out))
		out[p] ^= 1 << r.IntN(8)
	}
	return out
}

// ByteSet overwrites one byte with an interesting value.
func ByteSet(r *rand.Rand, b []byte) []byte {
	out := clone(b)
	if len(out) == 0 {
		return out
	}
	vals := []byte{0, 1, 2, 3, 4, 0x7F, 0x80, 0xFE, 0xFF, byte(r.Uint32())}
	out[r.IntN(len(out))] = vals[r.IntN(len(vals))]
	return out
}

// Interesting returns the interesting replacement values for a field that
// currently holds n, in a byte string of length l.
func Interesting(n uint32, l int) []uint32 {
	return []uint32{0, 1, n - 1, n, n + 1, 0x7FFF, 0x8000, 0xFFFF, 0xFFFFFFFF,
		uint32(l), uint32(l) - 1, uint32(l) + 1, 2, 3, 4, n * 2, n / 2, 0xFFFE, 0x10000, 0x7FFFFFFF, 0x80000000}
}

// Field16 rewrites one 16-bit field (2-byte aligned with probability 7/8)
// with an interesting value.
func Field16(r *rand.Rand, b []byte) []byte {
	out := clone(b)
	if len(out) < 2 {
		return out
	}
	p := r.IntN(len(out) - 1)
	if r.IntN(8) != 0 {
		p &^= 1
	}
	old := uint32(binary.BigEndian.Uint16(out[p:]))
	vals := Interesting(old, len(out))
	binary.BigEndian.PutUint16(out[p:], uint16(vals[r.IntN(len(vals))]))
	return out
}

// Field32 rewrites one 32-bit field (4- or 2-byte aligned).
func Field32(r *rand.Rand, b []byte) []byte {
	out := clone(b)
	if len(out) < 4 {
		return out
	}
	p := r.IntN(len(out) - 3)
	switch r.IntN(8) {
	case 0:
	case 1, 2, 3:
		p &^= 1
	default:
		p &^= 3
	}
	old := binary.BigEndian.Uint32(out[p:])
	vals := Interesting(old, len(out))
	binary.BigEndian.PutUint32(out[p:], vals[r.IntN(len(vals))])
	return out
}

// FieldAt rewrites the 16-bit field at position p with value index vi of
// Interesting (enumeration form, used by the exhaustive field sweep).
func FieldAt(b []byte, p int, vi int) []byte {
	out := clone(b)
	if p+2 > len(out) {
		return out
	}
	old := uint32(binary.BigEndian.Uint16(out[p:]))
	vals := Interesting(old, len(out))
	binary.BigEndian.PutUint16(out[p:], uint16(vals[vi%len(vals)]))
	return out
}

// Truncate returns the first n bytes.
func Truncate(b []byte, n int) []byte {
	if n > len(b) {
		n = len(b)
	}
	if n < 0 {
		n = 0
	}
	return clone(b[:n])
}

func block(r *rand.Rand, l int) (int, int) {
	if l == 0 {
		return 0, 0
	}
	a := r.IntN(l)
	max := l - a
	n := 1 + r.IntN(max)
	switch r.IntN(4) {
	case 0: // short blocks are the common case
		if n > 8 {
			n = 1 + r.IntN(8)
		}
	case 1:
		if n > 64 {
			n = 1 + r.IntN(64)
		}
	}
	if r.IntN(2) == 0 {
		a &^= 1
		if a+n > l {
			n = l - a
		}
	}
	return a, n
}

// BlockDup duplicates a block in place (the copy follows the original).
func BlockDup(r *rand.Rand, b []byte, maxLen int) []byte {
	a, n := block(r, len(b))
	if len(b)+n > maxLen {
		return clone(b)
	}
	out := make([]byte, 0, len(b)+n)
	out = append(out, b[:a+n]...)
	out = append(out, b[a:a+n]...)
	out = append(out, b[a+n:]...)
	return out
}

// BlockDel deletes a block.
func BlockDel(r *rand.Rand, b []byte) []byte {
	a, n := block(r, len(b))
	out := make([]byte, 0, len(b))
	out = append(out, b[:a]...)
	out = append(out, b[a+n:]...)
	return out
}

// BlockOverwrite copies a block of src over a position of b (same length).
func BlockOverwrite(r *rand.Rand, b, src []byte) []byte {
	out := clone(b)
	if len(out) == 0 || len(src) == 0 {
		return out
	}
	a, n := block(r, len(src))
	p := r.IntN(len(out))
	copy(out[p:], src[a:a+n])
	return out
}

// Splice joins a prefix of b and a suffix of other.
func Splice(r *rand.Rand, b, other []byte, maxLen int) []byte {
	if len(b) == 0 || len(other) == 0 {
		return clone(b)
	}
	p := r.IntN(len(b) + 1)
	q := r.IntN(len(other) + 1)
	if r.IntN(2) == 0 && p <= len(other) {
		q = p // keep the alignment of the tail
	}
	out := make([]byte, 0, p+len(other)-q)
	out = append(out, b[:p]...)
	out = append(out, other[q:]...)
	if len(out) > maxLen {
		out = out[:maxLen]
	}
	return out
}

// Insert inserts 1..16 random or constant bytes.
func Insert(r *rand.Rand, b []byte, maxLen int) []byte {
	n := 1 + r.IntN(16)
	if len(b)+n > maxLen {
		return clone(b)
	}
	p := r.IntN(len(b) + 1)
	ins := make([]byte, n)
	switch r.IntN(3) {
	case 0:
	case 1:
		for i := range ins {
			ins[i] = 0xFF
		}
	default:
		for i := range ins {
			ins[i] = byte(r.Uint32())
		}
	}
	out := make([]byte, 0, len(b)+n)
	out = append(out, b[:p]...)
	out = append(out, ins...)
	out = append(out, b[p:]...)
	return out
}

// offsetCandidates lists positions of aligned 16-bit fields whose value
// looks like an offset into b (non-zero, below len(b)).
func offsetCandidates(b []byte, limit int) []int {
	var out []int
	for p := 0; p+2 <= len(b) && len(out) < limit; p += 2 {
		v := int(binary.BigEndian.Uint16(b[p:]))
		if v >= 2 && v < len(b) {
			out = append(out, p)
		}
	}
	return out
}

// Repoint makes one offset-like 16-bit field point at another structure of
// the same file: at the target of another offset-like field, at itself, at 0,
// at the last bytes, or a few bytes next to its old target.
func Repoint(r *rand.Rand, b []byte) []byte {
	out := clone(b)
	c := offsetCandidates(out, 4096)
	if len(c) == 0 {
		return Field16(r, b)
	}
	p := c[r.IntN(len(c))]
	old := int(binary.BigEndian.Uint16(out[p:]))
	var v int
	switch r.IntN(8) {
	case 0, 1, 2:
		q := c[r.IntN(len(c))]
		v = int(binary.BigEndian.Uint16(out[q:]))
	case 3:
		v = p // points at itself
	case 4:
		v = len(out) - 1 - r.IntN(8)
	case 5:
		v = old + r.IntN(9) - 4
	case 6:
		v = c[r.IntN(len(c))] // points at another offset field
	default:
		v = r.IntN(len(out))
	}
	if v < 0 {
		v = 0
	}
	binary.BigEndian.PutUint16(out[p:], uint16(v))
	return out
}

// Repoint32 does the same for 32-bit offset-like fields (sfnt directory,
// cmap header, loca format 1).
func Repoint32(r *rand.Rand, b []byte) []byte {
	out := clone(b)
	var c []int
	for p := 0; p+4 <= len(out) && len(c) < 4096; p += 4 {
		v := int(binary.BigEndian.Uint32(out[p:]))
		if v >= 4 && v < len(out) {
			c = append(c, p)
		}
	}
	if len(c) == 0 {
		return Field32(r, b)
	}
	p := c[r.IntN(len(c))]
	var v int
	switch r.IntN(4) {
	case 0, 1:
		v = int(binary.BigEndian.Uint32(out[c[r.IntN(len(c))]:]))
	case 2:
		v = len(out) - r.IntN(16)
	default:
		v = r.IntN(len(out))
	}
	binary.BigEndian.PutUint32(out[p:], uint32(v))
	return out
}

// RandomTail keeps the first keep bytes and replaces the rest by n random
// bytes drawn from one of several distributions (uniform, mostly zero, small
// values, 0xFF-heavy) so that count and offset fields take plausible values.
func RandomTail(r *rand.Rand, prefix []byte, n int) []byte {
	out := make([]byte, 0, len(prefix)+n)
	out = append(out, prefix...)
	mode := r.IntN(5)
	for i := 0; i < n; i++ {
		var v byte
		switch mode {
		case 0:
			v = byte(r.Uint32())
		case 1:
			if r.IntN(4) == 0 {
				v = byte(r.IntN(16))
			}
		case 2:
			v = byte(r.IntN(8))
		case 3:
			if r.IntN(3) == 0 {
				v = 0xFF
			} else {
				v = byte(r.Uint32())
			}
		default:
			if i%2 == 1 {
				v = byte(r.IntN(40))
			}
		}
		out = append(out, v)
	}
	return out
}

// Names of the mutators applied by Mutate (coverage classes).
var Names = []string{"bitflip", "byteset", "field16", "field32", "truncate", "blockdup", "blockdel",
	"overwrite", "splice", "insert", "repoint", "repoint32"}

// Mutate applies 1..3 randomly chosen mutators and returns the mutant and
// the names of the mutators used.  others supplies splice / overwrite
// partners (seeds of the same decoder); maxLen caps the size of the result.
func Mutate(r *rand.Rand, b []byte, others [][]byte, maxLen int) ([]byte, []string) {
	n := 1
	switch r.IntN(10) {
	case 0, 1, 2:
		n = 2
	case 3:
		n = 3
	}
	out := b
	var used []string
	for i := 0; i < n; i++ {
		m := r.IntN(len(Names))
		var other []byte
		if len(others) > 0 {
			other = others[r.IntN(len(others))]
		}
		switch Names[m] {
		case "bitflip":
			out = BitFlip(r, out)
		case "byteset":
			out = ByteSet(r, out)
		case "field16":
			out = Field16(r, out)
		case "field32":
			out = Field32(r, out)
		case "truncate":
			if len(out) > 0 {
				out = Truncate(out, r.IntN(len(out)))
			}
		case "blockdup":
			out = BlockDup(r, out, maxLen)
		case "blockdel":
			out = BlockDel(r, out)
		case "overwrite":
			out = BlockOverwrite(r, out, other)
		case "splice":
			out = Splice(r, out, other, maxLen)
		case "insert":
			out = Insert(r, out, maxLen)
		case "repoint":
			out = Repoint(r, out)
		case "repoint32":
			out = Repoint32(r, out)
		}
		used = append(used, Names[m])
	}
	if len(out) > maxLen {
		out = out[:maxLen]
	}
	return out, used
}
