package otl

import (
	"fmt"
	"math/rand/v2"
	"sort"

	"seehuhn.de/go/sfnt/glyph"
	"seehuhn.de/go/sfnt/opentype/anchor"
	"seehuhn.de/go/sfnt/opentype/classdef"
	"seehuhn.de/go/sfnt/opentype/coverage"
	"seehuhn.de/go/sfnt/opentype/gtab"
	"seehuhn.de/go/sfnt/opentype/markarray"
)

// LookupTypes returns the lookup types the generator supports for the given
// table type (GPOS type 5 has no encoder in the library and is left out;
// the extension types 7 / 9 are produced by the encoder, never requested).
func LookupTypes(tableType int, o Opts) []int {
	var all []int
	switch {
	case tableType == GSUB && o.DSL:
		all = []int{1, 2, 3, 4, 5, 6}
	case tableType == GSUB:
		all = []int{1, 2, 3, 4, 5, 6, 8}
	case o.DSL:
		all = []int{1, 2, 3, 4}
	default:
		all = []int{1, 2, 3, 4, 6, 7, 8}
	}
	if o.Types == nil {
		return all
	}
	var out []int
	for _, t := range all {
		for _, u := range o.Types {
			if t == u {
				out = append(out, t)
			}
		}
	}
	return out
}

// Formats returns the subtable formats of a lookup type.
func Formats(tableType, lookupType int) []int {
	if tableType == GSUB {
		switch lookupType {
		case 1:
			return []int{1, 2}
		case 2, 3, 4, 8:
			return []int{1}
		case 5, 6:
			return []int{1, 2, 3}
		}
		return nil
	}
	switch lookupType {
	case 1, 2:
		return []int{1, 2}
	case 3, 4, 6:
		return []int{1}
	case 7, 8:
		return []int{1, 2, 3}
	}
	return nil
}

// Name returns a short name such as "GSUB6.2" for evidence classes.
func Name(tableType, lookupType, format int) string {
	t := "GSUB"
	if tableType == GPOS {
		t = "GPOS"
	}
	return fmt.Sprintf("%s%d.%d", t, lookupType, format)
}

// Subtable generates one subtable of the given lookup type and format.
// It panics for combinations not listed by LookupTypes/Formats.
func Subtable(r *rand.Rand, tableType, lookupType, format int, o Opts) gtab.Subtable {
	B := o.target(r)
	key := lookupType*10 + format
	if tableType == GPOS {
		switch lookupType {
		case 7: // contexts are shared between GSUB and GPOS
			key = 50 + format
		case 8:
			key = 60 + format
		default:
			key += 1000
		}
	}
	switch key {
	case 11:
		return gsub11(r, B, o)
	case 12:
		return gsub12(r, B, o)
	case 21:
		return gsub21(r, B, o)
	case 31:
		return gsub31(r, B, o)
	case 41:
		return gsub41(r, B, o)
	case 51:
		return seqCtx1(r, B, o)
	case 52:
		return seqCtx2(r, B, o)
	case 53:
		return seqCtx3(r, B, o)
	case 61:
		return chained1(r, B, o)
	case 62:
		return chained2(r, B, o)
	case 63:
		return chained3(r, B, o)
	case 81:
		return gsub81(r, B, o)
	case 1011:
		return gpos11(r, B, o)
	case 1012:
		return gpos12(r, B, o)
	case 1021:
		return gpos21(r, B, o)
	case 1022:
		return gpos22(r, B, o)
	case 1031:
		return gpos31(r, B, o)
	case 1041:
		m, b, ma, ba := markBase(r, B, o)
		return &gtab.Gpos4_1{MarkCov: m, BaseCov: b, MarkArray: ma, BaseArray: ba}
	case 1061:
		m, b, ma, ba := markBase(r, B, o)
		return &gtab.Gpos6_1{Mark1Cov: m, Mark2Cov: b, Mark1Array: ma, Mark2Array: ba}
	}
	panic(fmt.Sprintf("otl.Subtable: unsupported %s", Name(tableType, lookupType, format)))
}

// sub returns the options for a component with a byte budget.
func sub(o Opts, budget int) Opts {
	o.Bytes = max(budget, 6)
	return o
}

// count returns a number of entries in [lo, max(lo, B/per)], limited by the
// alphabet size.
func count(r *rand.Rand, B, per, lo int, o Opts) int {
	n := B / per
	if n < lo {
		n = lo
	}
	if o.Bytes == 0 && n > lo {
		// below the target with some spread
		n = lo + r.IntN(n-lo+1)
		if r.IntN(3) != 0 {
			n = max(n, (B/per)*3/4)
		}
	}
	if n > o.maxGID()+1 {
		n = o.maxGID() + 1
	}
	if !o.DSL && lo > 0 && r.IntN(40) == 0 {
		n = 0 // the binary format can express empty subtables
	}
	return n
}

// ---- GSUB ----------------------------------------------------------------

// DSL: the coverage is not empty and glyph+Delta stays inside the alphabet.
func gsub11(r *rand.Rand, B int, o Opts) gtab.Subtable {
	m := o.maxGID()
	n := count(r, B, 2, 1, o)
	if !o.DSL {
		return &gtab.Gsub1_1{Cov: CoverageSetN(r, n, o), Delta: glyph.ID(r.IntN(65536))}
	}
	if n > m {
		n = m // leave room for a non-zero delta
	}
	if n < 1 {
		n = 1
	}
	gids := GIDs(r, n, m)
	lo, hi := int(gids[0]), int(gids[len(gids)-1])
	// delta in [-lo, m-hi]
	d := r.IntN(lo+(m-hi)+1) - lo
	return &gtab.Gsub1_1{Cov: SetOf(gids), Delta: glyph.ID(d)}
}

func gsub12(r *rand.Rand, B int, o Opts) gtab.Subtable {
	cov := CoverageN(r, count(r, B, 4, 1, o), o)
	return &gtab.Gsub1_2{Cov: cov, SubstituteGlyphIDs: gidSeq(r, len(cov), o)}
}

// DSL: replacement sequences are not empty.
func gsub21(r *rand.Rand, B int, o Opts) gtab.Subtable {
	cov := CoverageN(r, count(r, B, 12, 1, o), o)
	repl := make([][]glyph.ID, len(cov))
	for i := range repl {
		n := 1 + r.IntN(4)
		if !o.DSL && r.IntN(10) == 0 {
			n = 0
		}
		repl[i] = gidSeq(r, n, o)
	}
	return &gtab.Gsub2_1{Cov: cov, Repl: repl}
}

// DSL: alternates are sets (sorted, distinct).
func gsub31(r *rand.Rand, B int, o Opts) gtab.Subtable {
	cov := CoverageN(r, count(r, B, 12, 1, o), o)
	alt := make([][]glyph.ID, len(cov))
	for i := range alt {
		n := r.IntN(5)
		if o.DSL {
			alt[i] = GIDs(r, n, o.maxGID())
		} else {
			alt[i] = gidSeq(r, n, o)
		}
	}
	return &gtab.Gsub3_1{Cov: cov, Alternates: alt}
}

// DSL: every covered glyph has at least one ligature.
func gsub41(r *rand.Rand, B int, o Opts) gtab.Subtable {
	cov := CoverageN(r, count(r, B, 34, 1, o), o)
	repl := make([][]gtab.Ligature, len(cov))
	for i := range repl {
		n := 1 + r.IntN(3)
		if !o.DSL && r.IntN(10) == 0 {
			n = 0
		}
		repl[i] = make([]gtab.Ligature, n)
		for j := range repl[i] {
			repl[i][j] = gtab.Ligature{In: gidSeq(r, r.IntN(4), o), Out: GID(r, o)}
		}
	}
	return &gtab.Gsub4_1{Cov: cov, Repl: repl}
}

func gsub81(r *rand.Rand, B int, o Opts) gtab.Subtable {
	cov := CoverageN(r, count(r, B, 4, 1, o), o)
	s := &gtab.Gsub8_1{Input: cov, SubstituteGlyphIDs: gidSeq(r, len(cov), o)}
	for i, n := 0, seqLen(r, 3); i < n; i++ {
		s.Backtrack = append(s.Backtrack, TableOf(smallSet(r, o).Glyphs()))
	}
	for i, n := 0, seqLen(r, 3); i < n; i++ {
		s.Lookahead = append(s.Lookahead, TableOf(smallSet(r, o).Glyphs()))
	}
	return s
}

// ---- contexts ------------------------------------------------------------

// DSL: every covered glyph has at least one rule.
func seqCtx1(r *rand.Rand, B int, o Opts) gtab.Subtable {
	cov := CoverageN(r, count(r, B, 30, 1, o), o)
	rules := make([][]*gtab.SeqRule, len(cov))
	for i := range rules {
		n := 1 + r.IntN(3)
		if !o.DSL {
			switch r.IntN(12) {
			case 0:
				continue // NULL offset
			case 1:
				rules[i] = []*gtab.SeqRule{} // rule set without rules
				continue
			}
		}
		for j := 0; j < n; j++ {
			in := gidSeq(r, seqLen(r, 3), o)
			rules[i] = append(rules[i], &gtab.SeqRule{Input: in, Actions: actions(r, len(in)+1, o)})
		}
	}
	return &gtab.SeqContext1{Cov: cov, Rules: rules}
}

func classSeq(r *rand.Rand, n, numClasses int) []uint16 {
	out := make([]uint16, n)
	for i := range out {
		out[i] = uint16(r.IntN(numClasses))
	}
	return out
}

func numClassesFor(r *rand.Rand, B int) int {
	k := 1 + r.IntN(5)
	if B > 2000 && r.IntN(3) == 0 {
		k = 2 + r.IntN(40)
	}
	if r.IntN(10) == 0 {
		k = 1 // only class 0
	}
	return k
}

// DSL: len(Rules) equals the number of classes and there is at least one rule.
func seqCtx2(r *rand.Rand, B int, o Opts) gtab.Subtable {
	cd := ClassDef(r, numClassesFor(r, B), sub(o, B/4))
	nc := cd.NumClasses()
	s := &gtab.SeqContext2{
		Cov:   CoverageN(r, count(r, B/4, 2, 1, o), o),
		Input: cd,
	}
	nRules := max(1, B/50)
	if o.Bytes == 0 {
		nRules = 1 + r.IntN(nRules)
	}
	nSets := nc
	if !o.DSL && r.IntN(3) == 0 {
		nSets = r.IntN(nc + 1)
		if nSets == 0 {
			nRules = 0
		}
	}
	s.Rules = make([][]*gtab.ClassSeqRule, nSets)
	for j := 0; j < nRules; j++ {
		in := classSeq(r, seqLen(r, 3), nc)
		c := r.IntN(nSets)
		s.Rules[c] = append(s.Rules[c], &gtab.ClassSeqRule{Input: in, Actions: actions(r, len(in)+1, o)})
	}
	if !o.DSL && nSets > 0 && r.IntN(6) == 0 {
		if c := r.IntN(nSets); s.Rules[c] == nil {
			s.Rules[c] = []*gtab.ClassSeqRule{}
		}
	}
	return s
}

func setSeq(r *rand.Rand, n int, o Opts) []coverage.Set {
	out := make([]coverage.Set, n)
	for i := range out {
		out[i] = smallSet(r, o)
	}
	return out
}

func seqCtx3(r *rand.Rand, B int, o Opts) gtab.Subtable {
	n := 1 + r.IntN(4)
	in := setSeq(r, n, o)
	if B > 400 {
		in[r.IntN(n)] = CoverageSetN(r, count(r, B, 3, 1, o), o)
	}
	return &gtab.SeqContext3{Input: in, Actions: actions(r, n, o)}
}

// DSL: every covered glyph has at least one rule.
func chained1(r *rand.Rand, B int, o Opts) gtab.Subtable {
	cov := CoverageN(r, count(r, B, 44, 1, o), o)
	rules := make([][]*gtab.ChainedSeqRule, len(cov))
	for i := range rules {
		n := 1 + r.IntN(3)
		if !o.DSL {
			switch r.IntN(12) {
			case 0:
				continue
			case 1:
				rules[i] = []*gtab.ChainedSeqRule{}
				continue
			}
		}
		for j := 0; j < n; j++ {
			in := gidSeq(r, seqLen(r, 3), o)
			rules[i] = append(rules[i], &gtab.ChainedSeqRule{
				Backtrack: gidSeq(r, seqLen(r, 3), o),
				Input:     in,
				Lookahead: gidSeq(r, seqLen(r, 3), o),
				Actions:   actions(r, len(in)+1, o),
			})
		}
	}
	return &gtab.ChainedSeqContext1{Cov: cov, Rules: rules}
}

// DSL: len(Rules) equals the number of input classes; at least one rule.
func chained2(r *rand.Rand, B int, o Opts) gtab.Subtable {
	s := &gtab.ChainedSeqContext2{
		Cov:       CoverageN(r, count(r, B/5, 2, 1, o), o),
		Backtrack: ClassDef(r, numClassesFor(r, B), sub(o, B/8)),
		Input:     ClassDef(r, numClassesFor(r, B), sub(o, B/8)),
		Lookahead: ClassDef(r, numClassesFor(r, B), sub(o, B/8)),
	}
	nb, ni, nl := s.Backtrack.NumClasses(), s.Input.NumClasses(), s.Lookahead.NumClasses()
	nRules := max(1, B/90)
	if o.Bytes == 0 {
		nRules = 1 + r.IntN(nRules)
	}
	nSets := ni
	if !o.DSL && r.IntN(3) == 0 {
		nSets = r.IntN(ni + 1)
		if nSets == 0 {
			nRules = 0
		}
	}
	s.Rules = make([][]*gtab.ChainedClassSeqRule, nSets)
	for j := 0; j < nRules; j++ {
		in := classSeq(r, seqLen(r, 3), ni)
		c := r.IntN(nSets)
		s.Rules[c] = append(s.Rules[c], &gtab.ChainedClassSeqRule{
			Backtrack: classSeq(r, seqLen(r, 3), nb),
			Input:     in,
			Lookahead: classSeq(r, seqLen(r, 3), nl),
			Actions:   actions(r, len(in)+1, o),
		})
	}
	if !o.DSL && nSets > 0 && r.IntN(6) == 0 {
		if c := r.IntN(nSets); s.Rules[c] == nil {
			s.Rules[c] = []*gtab.ChainedClassSeqRule{}
		}
	}
	return s
}

func chained3(r *rand.Rand, B int, o Opts) gtab.Subtable {
	n := 1 + r.IntN(3)
	s := &gtab.ChainedSeqContext3{
		Backtrack: setSeq(r, seqLen(r, 3), o),
		Input:     setSeq(r, n, o),
		Lookahead: setSeq(r, seqLen(r, 3), o),
		Actions:   actions(r, n, o),
	}
	if B > 400 {
		big := CoverageSetN(r, count(r, B, 3, 1, o), o)
		switch k := r.IntN(3); {
		case k == 0 && len(s.Backtrack) > 0:
			s.Backtrack[r.IntN(len(s.Backtrack))] = big
		case k == 1 && len(s.Lookahead) > 0:
			s.Lookahead[r.IntN(len(s.Lookahead))] = big
		default:
			s.Input[r.IntN(n)] = big
		}
	}
	return s
}

// ---- GPOS ----------------------------------------------------------------

// vrMax is the largest encoded size of one value record.
func vrMax(o Opts) int {
	if o.DevOffs {
		return 16
	}
	return 8
}

func maybeRecord(r *rand.Rand, o Opts) *gtab.GposValueRecord {
	if r.IntN(4) == 0 {
		return nil
	}
	return ValueRecord(r, o)
}

func gpos11(r *rand.Rand, B int, o Opts) gtab.Subtable {
	o = vrStyled(r, o)
	n := count(r, B, 2, 1, o)
	if o.DSL && r.IntN(10) == 0 {
		n = 0 // "[] -> x+1" is expressible
	}
	return &gtab.Gpos1_1{Cov: CoverageN(r, n, o), Adjust: maybeRecord(r, o)}
}

// Binary format: one value format per subtable, so either all records are nil
// or none is.  DSL: any mixture of nil and non-zero records.
func gpos12(r *rand.Rand, B int, o Opts) gtab.Subtable {
	o = vrStyled(r, o)
	cov := CoverageN(r, count(r, B, 2+vrMax(o), 1, o), o)
	adj := make([]*gtab.GposValueRecord, len(cov))
	allNil := r.IntN(8) == 0
	for i := range adj {
		switch {
		case o.DSL:
			adj[i] = maybeRecord(r, o)
		case !allNil:
			adj[i] = ValueRecord(r, o)
		}
	}
	return &gtab.Gpos1_2{Cov: cov, Adjust: adj}
}

// pairAdjust: nilFirst/nilSecond fix the nil-ness (binary mode).
func pairAdjust(r *rand.Rand, o Opts, nilFirst, nilSecond bool) *gtab.PairAdjust {
	p := &gtab.PairAdjust{}
	if o.DSL {
		p.First = maybeRecord(r, o)
		if r.IntN(2) == 0 {
			p.Second = maybeRecord(r, o)
		}
		return p
	}
	if !nilFirst {
		p.First = ValueRecord(r, o)
	}
	if !nilSecond {
		p.Second = ValueRecord(r, o)
	}
	return p
}

// DSL: at least one pair.
func gpos21(r *rand.Rand, B int, o Opts) gtab.Subtable {
	o = vrStyled(r, o)
	nf, ns := r.IntN(6) == 0, r.IntN(2) == 0
	nFirst := count(r, B, 6+5*(2+2*vrMax(o)), 1, o)
	firsts := GIDs(r, nFirst, o.maxGID())
	res := gtab.Gpos2_1{}
	for _, f := range firsts {
		k := 1 + r.IntN(4)
		if r.IntN(10) == 0 {
			k = 1 + r.IntN(30)
		}
		for _, s := range GIDs(r, k, o.maxGID()) {
			res[glyph.Pair{Left: f, Right: s}] = pairAdjust(r, o, nf, ns)
		}
	}
	return res
}

// DSL: Adjust has NumClasses(Class1) rows of NumClasses(Class2) entries.
func gpos22(r *rand.Rand, B int, o Opts) gtab.Subtable {
	o = vrStyled(r, o)
	nf, ns := r.IntN(6) == 0, r.IntN(2) == 0
	c1 := numClassesFor(r, B)
	c2 := numClassesFor(r, B)
	for c1*c2*2*vrMax(o) > max(B/2, 60) && (c1 > 1 || c2 > 1) {
		if c1 >= c2 {
			c1 = (c1 + 1) / 2
		} else {
			c2 = (c2 + 1) / 2
		}
	}
	s := &gtab.Gpos2_2{
		Cov:    CoverageSetN(r, count(r, B/6, 2, 1, o), o),
		Class1: ClassDef(r, c1, sub(o, B/8)),
		Class2: ClassDef(r, c2, sub(o, B/8)),
	}
	if o.DSL {
		c1, c2 = s.Class1.NumClasses(), s.Class2.NumClasses()
	} else if r.IntN(6) == 0 {
		// the class counts of the binary format are independent of the class tables
		c1, c2 = r.IntN(4), r.IntN(4)
		if r.IntN(4) != 0 && c2 == 0 {
			c2 = 1
		}
	}
	s.Adjust = make([][]*gtab.PairAdjust, c1)
	for i := range s.Adjust {
		s.Adjust[i] = make([]*gtab.PairAdjust, c2)
		for j := range s.Adjust[i] {
			s.Adjust[i][j] = pairAdjust(r, o, nf, ns)
		}
	}
	return s
}

func anchorVal(r *rand.Rand) anchor.Table {
	if r.IntN(6) == 0 {
		return anchor.Table{} // absent
	}
	return anchor.Table{X: int16val(r), Y: int16val(r)}
}

// DSL: at least one record.
func gpos31(r *rand.Rand, B int, o Opts) gtab.Subtable {
	cov := CoverageN(r, count(r, B, 18, 1, o), o)
	recs := make([]gtab.EntryExitRecord, len(cov))
	for i := range recs {
		recs[i] = gtab.EntryExitRecord{Entry: anchorVal(r), Exit: anchorVal(r)}
	}
	return &gtab.Gpos3_1{Cov: cov, Records: recs}
}

// markBase generates the data of a mark-to-base / mark-to-mark subtable.
// Every mark class is smaller than the class count k; DSL: the classes 0..k-1
// are all in use and k is 0 when there is no mark.
func markBase(r *rand.Rand, B int, o Opts) (markCov, baseCov coverage.Table, marks []markarray.Record, bases [][]anchor.Table) {
	k := 1 + r.IntN(4)
	if r.IntN(8) == 0 {
		k = 1 + r.IntN(12)
	}
	nMarks := count(r, B/2, 12, 1, o)
	nBases := count(r, B/2, 2+8*k, 1, o)
	if r.IntN(12) == 0 {
		nBases = 0
	}
	if r.IntN(20) == 0 {
		nMarks = 0
	}
	if o.DSL {
		if nMarks == 0 {
			k = 0
		} else if k > nMarks {
			k = nMarks
		}
	}
	markCov = CoverageN(r, nMarks, o)
	if o.DSL && len(markCov) < k {
		k = len(markCov)
	}
	marks = make([]markarray.Record, len(markCov))
	for i := range marks {
		marks[i] = markarray.Record{Class: uint16(r.IntN(max(k, 1))), Table: anchor.Table{X: int16val(r), Y: int16val(r)}}
		if r.IntN(6) == 0 {
			// a mark attached at its origin: the anchor of a mark record is
			// mandatory, (0,0) is a position there and not "absent"
			marks[i].Table = anchor.Table{}
		}
	}
	if o.DSL {
		// all classes in use
		for c, i := range r.Perm(len(marks)) {
			if c >= k {
				break
			}
			marks[i].Class = uint16(c)
		}
	}
	baseCov = CoverageN(r, nBases, o)
	bases = make([][]anchor.Table, len(baseCov))
	for i := range bases {
		bases[i] = make([]anchor.Table, k)
		for j := range bases[i] {
			bases[i][j] = anchorVal(r)
		}
	}
	if len(bases) == 0 && !o.DSL && len(marks) > 0 {
		// without base rows the encoder derives the class count from the
		// largest mark class; nothing else to keep consistent
		bases = nil
	}
	return
}

// ---- helpers for callers ---------------------------------------------------

// ClassGlyphs lists the glyphs of each class (index = class, class 0 empty).
func ClassGlyphs(cd classdef.Table) [][]glyph.ID {
	out := make([][]glyph.ID, cd.NumClasses())
	for g, c := range cd {
		out[c] = append(out[c], g)
	}
	for _, l := range out {
		sort.Slice(l, func(i, j int) bool { return l[i] < l[j] })
	}
	return out
}
