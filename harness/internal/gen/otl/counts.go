package otl

import (
	"fmt"
	"math/rand/v2"

	"seehuhn.de/go/sfnt/glyph"
	"seehuhn.de/go/sfnt/opentype/anchor"
	"seehuhn.de/go/sfnt/opentype/coverage"
	"seehuhn.de/go/sfnt/opentype/gtab"
	"seehuhn.de/go/sfnt/opentype/markarray"
)

// The ordinary generators grow a subtable by covering more glyphs; every
// single record (a replacement sequence, an alternate set, a rule, ...) stays
// tiny.  The shapes below do the opposite: few covered glyphs and ONE record
// whose own 16-bit count is large.

// CountShape names one record kind whose count can be made large.
type CountShape struct {
	Name   string // "2.1:sequence", "6.2:backtrack", ... (without the table name)
	Type   int    // lookup type in GSUB; the contextual types 5/6 are 7/8 in GPOS
	Format int
	GPOS   int // lookup type when used in a GPOS table (0: GSUB only, Type==0: GPOS only)
	// Bytes is the number of encoded bytes one entry of the counted array
	// costs (2 for glyph/class ids and offsets of shared tables, more for
	// entries that own a table).
	Bytes int
}

// CountShapes lists the supported shapes.
var CountShapes = []CountShape{
	{"2.1:sequence", 2, 1, 0, 2},
	{"3.1:alternates", 3, 1, 0, 2},
	{"4.1:components", 4, 1, 0, 2},
	{"4.1:ligatures", 4, 1, 0, 8},
	{"5.1:input", 5, 1, 7, 2},
	{"5.1:actions", 5, 1, 7, 4},
	{"5.1:rules", 5, 1, 7, 8},
	{"5.2:input", 5, 2, 7, 2},
	{"5.2:actions", 5, 2, 7, 4},
	{"5.2:rules", 5, 2, 7, 8},
	{"5.3:input", 5, 3, 7, 10},
	{"5.3:actions", 5, 3, 7, 4},
	{"6.1:backtrack", 6, 1, 8, 2},
	{"6.1:input", 6, 1, 8, 2},
	{"6.1:lookahead", 6, 1, 8, 2},
	{"6.1:actions", 6, 1, 8, 4},
	{"6.1:rules", 6, 1, 8, 12},
	{"6.2:backtrack", 6, 2, 8, 2},
	{"6.2:input", 6, 2, 8, 2},
	{"6.2:lookahead", 6, 2, 8, 2},
	{"6.2:actions", 6, 2, 8, 4},
	{"6.2:rules", 6, 2, 8, 12},
	{"6.3:backtrack", 6, 3, 8, 10},
	{"6.3:input", 6, 3, 8, 10},
	{"6.3:lookahead", 6, 3, 8, 10},
	{"6.3:actions", 6, 3, 8, 4},
	{"8.1:backtrack", 8, 1, 0, 10},
	{"8.1:lookahead", 8, 1, 0, 10},
	{"4.1:mark-classes", 0, 1, 4, 0},
	{"6.1:mark-classes", 0, 1, 6, 0},
}

// few returns a coverage table with 1..3 glyphs (glyph 0 and the largest
// glyph id included now and then).
func few(r *rand.Rand, o Opts) coverage.Table {
	return CoverageN(r, 1+r.IntN(3), o)
}

func bigActions(r *rand.Rand, n, inputLen int, o Opts) []gtab.SeqLookup {
	out := make([]gtab.SeqLookup, n)
	for i := range out {
		out[i] = gtab.SeqLookup{
			SequenceIndex:   uint16(r.IntN(inputLen)),
			LookupListIndex: gtab.LookupIndex(r.IntN(o.numLookups())),
		}
	}
	return out
}

func tinySets(r *rand.Rand, n int, o Opts) []coverage.Set {
	out := make([]coverage.Set, n)
	for i := range out {
		out[i] = CoverageSetN(r, 1+r.IntN(2), o)
	}
	return out
}

// BigCount builds a subtable of the given shape in which one record has n
// entries (n mark classes for the two attachment shapes).  tableType decides
// between GSUB and GPOS for the contextual shapes; the lookup type to file
// the subtable under is returned.  It panics when the shape does not exist in
// the table type.
func BigCount(r *rand.Rand, tableType int, sh CountShape, n int, o Opts) (lookupType int, s gtab.Subtable) {
	lookupType = sh.Type
	if tableType == GPOS {
		lookupType = sh.GPOS
	}
	if lookupType == 0 {
		panic(fmt.Sprintf("otl.BigCount: %s does not exist in table type %d", sh.Name, tableType))
	}
	small := func() int { return r.IntN(3) }
	switch sh.Name {
	case "2.1:sequence":
		cov := few(r, o)
		repl := make([][]glyph.ID, len(cov))
		for i := range repl {
			repl[i] = gidSeq(r, 1+small(), o)
		}
		repl[r.IntN(len(repl))] = gidSeq(r, n, o)
		return lookupType, &gtab.Gsub2_1{Cov: cov, Repl: repl}

	case "3.1:alternates":
		cov := few(r, o)
		alt := make([][]glyph.ID, len(cov))
		for i := range alt {
			alt[i] = gidSeq(r, small(), o)
		}
		alt[r.IntN(len(alt))] = gidSeq(r, n, o)
		return lookupType, &gtab.Gsub3_1{Cov: cov, Alternates: alt}

	case "4.1:components", "4.1:ligatures":
		cov := few(r, o)
		repl := make([][]gtab.Ligature, len(cov))
		for i := range repl {
			for j, m := 0, 1+small(); j < m; j++ {
				repl[i] = append(repl[i], gtab.Ligature{In: gidSeq(r, small(), o), Out: GID(r, o)})
			}
		}
		i := r.IntN(len(repl))
		if sh.Name == "4.1:components" {
			repl[i][r.IntN(len(repl[i]))].In = gidSeq(r, n-1, o) // n components with the covered glyph
		} else {
			for len(repl[i]) < n {
				repl[i] = append(repl[i], gtab.Ligature{In: gidSeq(r, small(), o), Out: GID(r, o)})
			}
		}
		return lookupType, &gtab.Gsub4_1{Cov: cov, Repl: repl}

	case "5.1:input", "5.1:actions", "5.1:rules":
		cov := few(r, o)
		rules := make([][]*gtab.SeqRule, len(cov))
		mk := func() *gtab.SeqRule {
			in := gidSeq(r, small(), o)
			return &gtab.SeqRule{Input: in, Actions: actions(r, len(in)+1, o)}
		}
		for i := range rules {
			for j, m := 0, 1+small(); j < m; j++ {
				rules[i] = append(rules[i], mk())
			}
		}
		i := r.IntN(len(rules))
		rule := rules[i][r.IntN(len(rules[i]))]
		switch sh.Name {
		case "5.1:input":
			rule.Input = gidSeq(r, n-1, o)
			rule.Actions = actions(r, n, o)
		case "5.1:actions":
			rule.Actions = bigActions(r, n, len(rule.Input)+1, o)
		default:
			for len(rules[i]) < n {
				rules[i] = append(rules[i], mk())
			}
		}
		return lookupType, &gtab.SeqContext1{Cov: cov, Rules: rules}

	case "5.2:input", "5.2:actions", "5.2:rules":
		cd := ClassDef(r, 2+r.IntN(4), sub(o, 60))
		nc := cd.NumClasses()
		s := &gtab.SeqContext2{Cov: few(r, o), Input: cd, Rules: make([][]*gtab.ClassSeqRule, nc)}
		mk := func() *gtab.ClassSeqRule {
			in := classSeq(r, small(), nc)
			return &gtab.ClassSeqRule{Input: in, Actions: actions(r, len(in)+1, o)}
		}
		c := r.IntN(nc)
		s.Rules[c] = append(s.Rules[c], mk())
		for j, m := 0, small(); j < m; j++ {
			d := r.IntN(nc)
			s.Rules[d] = append(s.Rules[d], mk())
		}
		rule := s.Rules[c][r.IntN(len(s.Rules[c]))]
		switch sh.Name {
		case "5.2:input":
			rule.Input = classSeq(r, n-1, nc)
			rule.Actions = actions(r, n, o)
		case "5.2:actions":
			rule.Actions = bigActions(r, n, len(rule.Input)+1, o)
		default:
			for len(s.Rules[c]) < n {
				s.Rules[c] = append(s.Rules[c], mk())
			}
		}
		return lookupType, s

	case "5.3:input":
		return lookupType, &gtab.SeqContext3{Input: tinySets(r, n, o), Actions: actions(r, n, o)}
	case "5.3:actions":
		m := 1 + small()
		return lookupType, &gtab.SeqContext3{Input: tinySets(r, m, o), Actions: bigActions(r, n, m, o)}

	case "6.1:backtrack", "6.1:input", "6.1:lookahead", "6.1:actions", "6.1:rules":
		cov := few(r, o)
		rules := make([][]*gtab.ChainedSeqRule, len(cov))
		mk := func() *gtab.ChainedSeqRule {
			in := gidSeq(r, small(), o)
			return &gtab.ChainedSeqRule{Backtrack: gidSeq(r, small(), o), Input: in, Lookahead: gidSeq(r, small(), o), Actions: actions(r, len(in)+1, o)}
		}
		for i := range rules {
			for j, m := 0, 1+small(); j < m; j++ {
				rules[i] = append(rules[i], mk())
			}
		}
		i := r.IntN(len(rules))
		rule := rules[i][r.IntN(len(rules[i]))]
		switch sh.Name {
		case "6.1:backtrack":
			rule.Backtrack = gidSeq(r, n, o)
		case "6.1:lookahead":
			rule.Lookahead = gidSeq(r, n, o)
		case "6.1:input":
			rule.Input = gidSeq(r, n-1, o)
			rule.Actions = actions(r, n, o)
		case "6.1:actions":
			rule.Actions = bigActions(r, n, len(rule.Input)+1, o)
		default:
			for len(rules[i]) < n {
				rules[i] = append(rules[i], mk())
			}
		}
		return lookupType, &gtab.ChainedSeqContext1{Cov: cov, Rules: rules}

	case "6.2:backtrack", "6.2:input", "6.2:lookahead", "6.2:actions", "6.2:rules":
		s := &gtab.ChainedSeqContext2{
			Cov:       few(r, o),
			Backtrack: ClassDef(r, 1+r.IntN(4), sub(o, 60)),
			Input:     ClassDef(r, 2+r.IntN(4), sub(o, 60)),
			Lookahead: ClassDef(r, 1+r.IntN(4), sub(o, 60)),
		}
		nb, ni, nl := s.Backtrack.NumClasses(), s.Input.NumClasses(), s.Lookahead.NumClasses()
		s.Rules = make([][]*gtab.ChainedClassSeqRule, ni)
		mk := func() *gtab.ChainedClassSeqRule {
			in := classSeq(r, small(), ni)
			return &gtab.ChainedClassSeqRule{Backtrack: classSeq(r, small(), nb), Input: in, Lookahead: classSeq(r, small(), nl), Actions: actions(r, len(in)+1, o)}
		}
		c := r.IntN(ni)
		s.Rules[c] = append(s.Rules[c], mk())
		for j, m := 0, small(); j < m; j++ {
			d := r.IntN(ni)
			s.Rules[d] = append(s.Rules[d], mk())
		}
		rule := s.Rules[c][r.IntN(len(s.Rules[c]))]
		switch sh.Name {
		case "6.2:backtrack":
			rule.Backtrack = classSeq(r, n, nb)
		case "6.2:lookahead":
			rule.Lookahead = classSeq(r, n, nl)
		case "6.2:input":
			rule.Input = classSeq(r, n-1, ni)
			rule.Actions = actions(r, n, o)
		case "6.2:actions":
			rule.Actions = bigActions(r, n, len(rule.Input)+1, o)
		default:
			for len(s.Rules[c]) < n {
				s.Rules[c] = append(s.Rules[c], mk())
			}
		}
		return lookupType, s

	case "6.3:backtrack", "6.3:input", "6.3:lookahead", "6.3:actions":
		m := 1 + small()
		s := &gtab.ChainedSeqContext3{Backtrack: tinySets(r, small(), o), Input: tinySets(r, m, o), Lookahead: tinySets(r, small(), o)}
		switch sh.Name {
		case "6.3:backtrack":
			s.Backtrack = tinySets(r, n, o)
		case "6.3:lookahead":
			s.Lookahead = tinySets(r, n, o)
		case "6.3:input":
			m = n
			s.Input = tinySets(r, n, o)
		}
		s.Actions = actions(r, m, o)
		if sh.Name == "6.3:actions" {
			s.Actions = bigActions(r, n, m, o)
		}
		return lookupType, s

	case "8.1:backtrack", "8.1:lookahead":
		cov := few(r, o)
		s := &gtab.Gsub8_1{Input: cov, SubstituteGlyphIDs: gidSeq(r, len(cov), o)}
		tabs := func(m int) []coverage.Table {
			var out []coverage.Table
			for _, set := range tinySets(r, m, o) {
				out = append(out, TableOf(set.Glyphs()))
			}
			return out
		}
		s.Backtrack, s.Lookahead = tabs(small()), tabs(small())
		if sh.Name == "8.1:backtrack" {
			s.Backtrack = tabs(n)
		} else {
			s.Lookahead = tabs(n)
		}
		return lookupType, s

	case "4.1:mark-classes", "6.1:mark-classes":
		// n mark classes, every class in use by at least one mark when the
		// alphabet permits; few base glyphs (each base row has n anchors)
		markCov := CoverageN(r, n+r.IntN(n/4+2), o)
		marks := make([]markarray.Record, len(markCov))
		for i := range marks {
			marks[i] = markarray.Record{Class: uint16(r.IntN(n)), Table: anchor.Table{X: int16val(r), Y: int16val(r)}}
		}
		for c, i := range r.Perm(len(marks)) {
			if c >= n {
				break
			}
			marks[i].Class = uint16(c)
		}
		baseCov := few(r, o)
		bases := make([][]anchor.Table, len(baseCov))
		for i := range bases {
			bases[i] = make([]anchor.Table, n)
			for j := range bases[i] {
				bases[i][j] = anchorVal(r)
			}
		}
		if sh.Name == "4.1:mark-classes" {
			return lookupType, &gtab.Gpos4_1{MarkCov: markCov, BaseCov: baseCov, MarkArray: marks, BaseArray: bases}
		}
		return lookupType, &gtab.Gpos6_1{Mark1Cov: markCov, Mark2Cov: baseCov, Mark1Array: marks, Mark2Array: bases}
	}
	panic("otl.BigCount: unknown shape " + sh.Name)
}

// RuleSet builds a contextual subtable of format 1 or 2 (chained or not) with
// one covered glyph / one class whose only rule set consists of rules of
// about ruleBytes bytes each, such that the LAST rule of the set starts
// exactly lastRuleAt bytes after the start of the rule set.  lastRuleAt must
// be even.  The last rule itself is minimal.  It returns the subtable and the
// encoded size of the rule set.
func RuleSet(r *rand.Rand, chained bool, format int, lastRuleAt, ruleBytes int, o Opts) (gtab.Subtable, int) {
	// sizes: plain rule 4 + 2*in + 4*act; chained rule 8 + 2*(back+in+ahead) + 4*act
	fixed := 4
	if chained {
		fixed = 8
	}
	if ruleBytes < fixed+2 {
		ruleBytes = fixed + 2
	}
	// number of rules before the last one
	m := max(1, (lastRuleAt-4)/(ruleBytes+2))
	for {
		body := lastRuleAt - (2 + 2*(m+1)) // bytes for the first m rules
		if body >= m*fixed {
			break
		}
		m--
		if m < 1 {
			panic("otl.RuleSet: offset too small")
		}
	}
	body := lastRuleAt - (2 + 2*(m+1))
	sizes := make([]int, m) // payload glyph counts (2 bytes each) per rule
	payload := (body - m*fixed) / 2
	for i := range sizes {
		sizes[i] = payload / m
	}
	sizes[r.IntN(m)] += payload % m
	size := lastRuleAt + fixed

	gid := GID(r, o)
	cov := coverage.Table{gid: 0}
	split := func(n int) (a, b, c int) { // backtrack, input, lookahead
		if !chained {
			return 0, n, 0
		}
		a = r.IntN(n + 1)
		c = r.IntN(n - a + 1)
		return a, n - a - c, c
	}
	switch {
	case !chained && format == 1:
		var rules []*gtab.SeqRule
		for _, n := range sizes {
			rules = append(rules, &gtab.SeqRule{Input: gidSeq(r, n, o)})
		}
		rules = append(rules, &gtab.SeqRule{})
		return &gtab.SeqContext1{Cov: cov, Rules: [][]*gtab.SeqRule{rules}}, size
	case !chained:
		cd := ClassDef(r, 2+r.IntN(3), sub(o, 40))
		nc := cd.NumClasses()
		var rules []*gtab.ClassSeqRule
		for _, n := range sizes {
			rules = append(rules, &gtab.ClassSeqRule{Input: classSeq(r, n, nc)})
		}
		rules = append(rules, &gtab.ClassSeqRule{})
		s := &gtab.SeqContext2{Cov: cov, Input: cd, Rules: make([][]*gtab.ClassSeqRule, nc)}
		s.Rules[r.IntN(nc)] = rules
		return s, size
	case format == 1:
		var rules []*gtab.ChainedSeqRule
		for _, n := range sizes {
			a, b, c := split(n)
			rules = append(rules, &gtab.ChainedSeqRule{Backtrack: gidSeq(r, a, o), Input: gidSeq(r, b, o), Lookahead: gidSeq(r, c, o)})
		}
		rules = append(rules, &gtab.ChainedSeqRule{})
		return &gtab.ChainedSeqContext1{Cov: cov, Rules: [][]*gtab.ChainedSeqRule{rules}}, size
	default:
		s := &gtab.ChainedSeqContext2{Cov: cov,
			Backtrack: ClassDef(r, 1+r.IntN(4), sub(o, 40)), Input: ClassDef(r, 2+r.IntN(3), sub(o, 40)), Lookahead: ClassDef(r, 1+r.IntN(4), sub(o, 40))}
		nb, ni, nl := s.Backtrack.NumClasses(), s.Input.NumClasses(), s.Lookahead.NumClasses()
		var rules []*gtab.ChainedClassSeqRule
		for _, n := range sizes {
			a, b, c := split(n)
			rules = append(rules, &gtab.ChainedClassSeqRule{Backtrack: classSeq(r, a, nb), Input: classSeq(r, b, ni), Lookahead: classSeq(r, c, nl)})
		}
		rules = append(rules, &gtab.ChainedClassSeqRule{})
		s.Rules = make([][]*gtab.ChainedClassSeqRule, ni)
		s.Rules[r.IntN(ni)] = rules
		return s, size
	}
}
