package otl

import (
	"math/rand/v2"

	"golang.org/x/text/language"
	"seehuhn.de/go/sfnt/glyph"
	"seehuhn.de/go/sfnt/opentype/classdef"
	"seehuhn.de/go/sfnt/opentype/coverage"
	"seehuhn.de/go/sfnt/opentype/gdef"
	"seehuhn.de/go/sfnt/opentype/gtab"
)

// Flags returns lookup flags and a mark filtering set.  DSL: a subset of
// {IgnoreMarks, IgnoreLigatures, IgnoreBaseGlyphs}.
func Flags(r *rand.Rand, o Opts) (gtab.LookupFlags, uint16) {
	var f gtab.LookupFlags
	if o.DSL {
		if r.IntN(2) == 0 {
			return 0, 0
		}
		m := r.IntN(8)
		if m&1 != 0 {
			f |= gtab.IgnoreMarks
		}
		if m&2 != 0 {
			f |= gtab.IgnoreLigatures
		}
		if m&4 != 0 {
			f |= gtab.IgnoreBaseGlyphs
		}
		return f, 0
	}
	if r.IntN(2) == 0 {
		return 0, 0
	}
	f = gtab.LookupFlags(r.IntN(16)) // RightToLeft, IgnoreBase, IgnoreLig, IgnoreMarks
	var set uint16
	if r.IntN(3) == 0 {
		f |= gtab.UseMarkFilteringSet
		n := o.NumSets
		if n <= 0 {
			n = 4
		}
		set = uint16(r.IntN(n))
		if r.IntN(10) == 0 {
			set = uint16(r.IntN(65536))
		}
	}
	if r.IntN(4) == 0 {
		f |= gtab.LookupFlags(r.IntN(256)) << 8 // mark attachment type
	}
	return f, set
}

// Lookup generates one lookup table.  DSL: exactly one subtable for GSUB 1-4,
// at least one otherwise.
func Lookup(r *rand.Rand, tableType, lookupType int, o Opts) *gtab.LookupTable {
	flags, set := Flags(r, o)
	l := &gtab.LookupTable{Meta: &gtab.LookupMetaInfo{
		LookupType:       uint16(lookupType),
		LookupFlags:      flags,
		MarkFilteringSet: set,
	}}
	maxSubs := o.MaxSubs
	if maxSubs <= 0 {
		maxSubs = 4
	}
	n := 1
	if r.IntN(3) == 0 {
		n = 1 + r.IntN(maxSubs)
	}
	if !o.DSL && r.IntN(40) == 0 {
		n = 0
	}
	if o.DSL && tableType == GSUB && lookupType <= 4 {
		n = 1
	}
	ff := Formats(tableType, lookupType)
	for i := 0; i < n; i++ {
		l.Subtables = append(l.Subtables, Subtable(r, tableType, lookupType, ff[r.IntN(len(ff))], o))
	}
	return l
}

// LookupList generates o.NumLookups lookups (a random number 0..12 when that
// is zero; with DSL at least one).
func LookupList(r *rand.Rand, tableType int, o Opts) gtab.LookupList {
	if o.NumLookups <= 0 {
		o.NumLookups = r.IntN(13)
		if o.DSL && o.NumLookups == 0 {
			o.NumLookups = 1
		}
	}
	types := LookupTypes(tableType, o)
	ll := make(gtab.LookupList, o.NumLookups)
	for i := range ll {
		ll[i] = Lookup(r, tableType, types[r.IntN(len(types))], o)
	}
	return ll
}

// DefaultTags are script-list keys in the form gtab.Read produces them.
var DefaultTags = func() []language.Tag {
	var out []language.Tag
	for _, s := range []string{
		"und-Zzzz-x-DFLT", "und-Latn-x-latn", "de-Latn-x-latn-deu", "tr-Latn-x-latn-trk",
		"und-Arab-x-arab", "ur-Arab-x-arab-urd", "und-Cyrl-x-cyrl", "sr-Cyrl-x-cyrl-srb",
	} {
		out = append(out, language.MustParse(s))
	}
	return out
}()

var featureTags = []string{"liga", "kern", "mark", "mkmk", "calt", "ccmp", "clig", "locl", "smcp", "ss01", "ss20", "cv99", "aalt", "test", "    ", "A~!z"}

// FeatureTag returns a 4-byte feature tag.
func FeatureTag(r *rand.Rand) string {
	if r.IntN(8) == 0 {
		b := make([]byte, 4)
		for i := range b {
			b[i] = byte(0x20 + r.IntN(0x5f))
		}
		return string(b)
	}
	return featureTags[r.IntN(len(featureTags))]
}

// FeatureList generates n features referring to lookups < numLookups.
func FeatureList(r *rand.Rand, n, numLookups int) gtab.FeatureListInfo {
	fl := make(gtab.FeatureListInfo, n)
	for i := range fl {
		f := &gtab.Feature{Tag: FeatureTag(r)}
		k := r.IntN(4)
		if r.IntN(10) == 0 {
			k = r.IntN(30)
		}
		for j := 0; j < k && numLookups > 0; j++ {
			f.Lookups = append(f.Lookups, gtab.LookupIndex(r.IntN(numLookups)))
		}
		fl[i] = f
	}
	return fl
}

// Features generates a language system record over nFeatures features.
func Features(r *rand.Rand, nFeatures int) *gtab.Features {
	f := &gtab.Features{Required: 0xFFFF}
	if nFeatures > 0 && r.IntN(3) == 0 {
		f.Required = gtab.FeatureIndex(r.IntN(nFeatures))
	}
	k := r.IntN(5)
	if r.IntN(10) == 0 {
		k = r.IntN(40)
	}
	for j := 0; j < k && nFeatures > 0; j++ {
		f.Optional = append(f.Optional, gtab.FeatureIndex(r.IntN(nFeatures)))
	}
	return f
}

// ScriptList generates a script list over a random non-empty subset of tags.
func ScriptList(r *rand.Rand, tags []language.Tag, nFeatures int) gtab.ScriptListInfo {
	sl := gtab.ScriptListInfo{}
	if len(tags) == 0 {
		return sl
	}
	n := 1 + r.IntN(min(len(tags), 6))
	for _, i := range r.Perm(len(tags))[:n] {
		sl[tags[i]] = Features(r, nFeatures)
	}
	return sl
}

// Info generates a complete GSUB or GPOS table.
func Info(r *rand.Rand, tableType int, o Opts) *gtab.Info {
	ll := LookupList(r, tableType, o)
	nf := r.IntN(8)
	if r.IntN(10) == 0 {
		nf = r.IntN(60)
	}
	tags := o.Tags
	if tags == nil {
		tags = DefaultTags
	}
	return &gtab.Info{
		ScriptList:  ScriptList(r, tags, nf),
		FeatureList: FeatureList(r, nf, len(ll)),
		LookupList:  ll,
	}
}

// Gdef generates a GDEF table for a font with nGlyphs glyphs; each of the
// three components is present with probability 3/4.
func Gdef(r *rand.Rand, nGlyphs int) *gdef.Table {
	if nGlyphs < 1 {
		nGlyphs = 1
	}
	o := Opts{MaxGID: nGlyphs - 1}
	if nGlyphs > 0xFFFF {
		o.MaxGID = 0xFFFF
	}
	t := &gdef.Table{}
	if r.IntN(4) != 0 {
		t.GlyphClass = classdef.Table{}
		n := r.IntN(min(nGlyphs, 400) + 1)
		for _, g := range GIDs(r, n, o.MaxGID) {
			t.GlyphClass[g] = uint16(1 + r.IntN(4))
		}
	}
	if r.IntN(4) != 0 {
		t.MarkAttachClass = ClassDef(r, 1+r.IntN(6), Opts{MaxGID: o.MaxGID, Size: Small})
	}
	if r.IntN(4) != 0 {
		n := r.IntN(6)
		t.MarkGlyphSets = make([]coverage.Set, n)
		for i := range t.MarkGlyphSets {
			t.MarkGlyphSets[i] = CoverageSetN(r, r.IntN(min(nGlyphs, 60)+1), o)
		}
	}
	return t
}

// Filler returns a lookup (GSUB type 5 / GPOS type 7, one SeqContext3
// subtable with a single format-1 input coverage) whose encoded size -
// lookup table header, subtable offset and subtable - is exactly nBytes.
// nBytes must be even and lie in [22, 65554].
func Filler(tableType, nBytes int) *gtab.LookupTable {
	// 6 (lookup header) + 2 (subtable offset) + 6 + 2 (one coverage offset) + 4 + 2g
	g := (nBytes - 20) / 2
	if nBytes%2 != 0 || g < 1 || g > 32767 {
		panic("otl.Filler: size not representable")
	}
	set := make(coverage.Set, g)
	for i := 0; i < g; i++ {
		set[glyph.ID(2*i)] = true // no two consecutive: format 1 is the smaller one
	}
	tp := uint16(5)
	if tableType == GPOS {
		tp = 7
	}
	return &gtab.LookupTable{
		Meta:      &gtab.LookupMetaInfo{LookupType: tp},
		Subtables: []gtab.Subtable{&gtab.SeqContext3{Input: []coverage.Set{set}}},
	}
}

// GdefShapes names the GDEF shapes Gdef never produces (see GdefShape).
var GdefShapes = []string{"glyphclass>4", "many-sets", "large-sets", "sets-offset-near-limit", "attach-offset-near-limit"}

// GdefShape generates a GDEF table of one of the shapes in GdefShapes:
//
//	glyphclass>4              glyph class values beyond the four defined classes
//	many-sets                 100 … 1500 mark glyph sets (some empty, some shared glyphs)
//	large-sets                a few mark glyph sets of 20000 … 65536 glyphs: the 32-bit set offsets exceed 64 KiB
//	sets-offset-near-limit    class tables sized so that the mark glyph sets table starts at 0x10000+d
//	attach-offset-near-limit  a glyph class table sized so that the mark attachment class table starts at 0x10000+d
//
// d (even) is only used by the last two shapes.
func GdefShape(r *rand.Rand, shape string, d int) *gdef.Table {
	alternating := func(start, n int) classdef.Table {
		// n consecutive glyphs with classes 1,2,1,2…: format 1 with 6+2n bytes
		// is the smaller encoding for n >= 2
		t := make(classdef.Table, n)
		for i := 0; i < n; i++ {
			t[glyph.ID(start+i)] = uint16(1 + i%2)
		}
		return t
	}
	t := &gdef.Table{}
	switch shape {
	case "glyphclass>4":
		t = Gdef(r, []int{40, 300, 65536}[r.IntN(3)])
		if t.GlyphClass == nil {
			t.GlyphClass = classdef.Table{}
		}
		odd := []uint16{5, 6, 7, 255, 256, 0x7FFF, 0x8000, 0xFFFE, 0xFFFF}
		for _, g := range GIDs(r, 1+r.IntN(40), 0xFFFF) {
			t.GlyphClass[g] = odd[r.IntN(len(odd))]
		}
	case "many-sets":
		t = Gdef(r, 300)
		n := 100 + r.IntN(1401)
		o := Opts{MaxGID: []int{40, 5000, 0xFFFF}[r.IntN(3)]}
		t.MarkGlyphSets = make([]coverage.Set, n)
		for i := range t.MarkGlyphSets {
			t.MarkGlyphSets[i] = CoverageSetN(r, r.IntN(6), o)
		}
	case "large-sets":
		t = Gdef(r, 300)
		n := 2 + r.IntN(4)
		t.MarkGlyphSets = make([]coverage.Set, n)
		for i := range t.MarkGlyphSets {
			// scattered glyphs: coverage format 1, two bytes per glyph
			t.MarkGlyphSets[i] = CoverageSetN(r, 20000+r.IntN(20000), Opts{})
		}
		t.MarkGlyphSets[r.IntN(n)] = CoverageSetN(r, 65536, Opts{})
		t.MarkGlyphSets = append(t.MarkGlyphSets, CoverageSetN(r, r.IntN(4), Opts{})) // a small one behind 64 KiB
	case "sets-offset-near-limit":
		// 14 + (6+2a) + (6+2b) = 0x10000 + d
		total := (0x10000 + d - 14 - 12) / 2
		a := 2 + r.IntN(total-3)
		b := total - a
		t.GlyphClass = alternating(r.IntN(0x10000-a), a)
		t.MarkAttachClass = alternating(r.IntN(0x10000-b), b)
		t.MarkGlyphSets = []coverage.Set{CoverageSetN(r, r.IntN(5), Opts{}), CoverageSetN(r, 1+r.IntN(5), Opts{})}
	case "attach-offset-near-limit":
		hdr := 12
		if r.IntN(2) == 0 {
			hdr = 14
			t.MarkGlyphSets = []coverage.Set{CoverageSetN(r, r.IntN(5), Opts{})}
		}
		a := (0x10000 + d - hdr - 6) / 2
		t.GlyphClass = alternating(r.IntN(0x10000-a), a)
		t.MarkAttachClass = ClassDef(r, 1+r.IntN(4), Opts{Size: Small})
		if len(t.MarkAttachClass) == 0 {
			t.MarkAttachClass[GID(r, Opts{})] = 1
		}
	default:
		panic("otl.GdefShape: unknown shape " + shape)
	}
	return t
}
