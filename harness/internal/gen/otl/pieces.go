package otl

import (
	"fmt"

	"seehuhn.de/go/postscript/funit"
	"seehuhn.de/go/sfnt/glyph"
	"seehuhn.de/go/sfnt/opentype/classdef"
	"seehuhn.de/go/sfnt/opentype/coverage"
	"seehuhn.de/go/sfnt/opentype/gtab"
)

// PieceKinds lists the subtable kinds Pieces can build: subtables that
// consist of a header with 16-bit offsets to variable-size pieces (sequences,
// alternate sets, ligature sets, pair sets, rule sets).
var PieceKinds = []struct {
	Name   string
	Type   int // lookup type in GSUB (0: GPOS only)
	GPOS   int // lookup type in GPOS (0: GSUB only)
	Format int
	Per    int // bytes per payload entry
}{
	{"2.1", 2, 0, 1, 2},
	{"3.1", 3, 0, 1, 2},
	{"4.1", 4, 0, 1, 2},
	{"5.1", 5, 7, 1, 2},
	{"5.2", 5, 7, 2, 2},
	{"6.1", 6, 8, 1, 2},
	{"6.2", 6, 8, 2, 2},
	{"pair2.1", 0, 2, 1, 4},
}

// Pieces builds a subtable of the given kind with len(counts) pieces; piece i
// carries counts[i] payload entries (glyph ids, class values or pair
// records).  The content is a fixed function of the arguments.
func Pieces(kind string, counts []int) gtab.Subtable {
	n := len(counts)
	first := make([]glyph.ID, n)
	cov := coverage.Table{}
	for i := range first {
		first[i] = glyph.ID(10 + 3*i)
		cov[first[i]] = i
	}
	gids := func(piece, m int) []glyph.ID {
		out := make([]glyph.ID, m)
		for j := range out {
			out[j] = glyph.ID(1 + (j*7+piece*13)%4000)
		}
		return out
	}
	classes := func(piece, m, nc int) []uint16 {
		out := make([]uint16, m)
		for j := range out {
			out[j] = uint16((j*5 + piece) % nc)
		}
		return out
	}
	cd := func() classdef.Table {
		t := classdef.Table{}
		for i, g := range first {
			t[g] = uint16(i + 1)
		}
		return t
	}
	switch kind {
	case "2.1":
		s := &gtab.Gsub2_1{Cov: cov}
		for i, m := range counts {
			s.Repl = append(s.Repl, gids(i, m))
		}
		return s
	case "3.1":
		s := &gtab.Gsub3_1{Cov: cov}
		for i, m := range counts {
			s.Alternates = append(s.Alternates, gids(i, m))
		}
		return s
	case "4.1":
		s := &gtab.Gsub4_1{Cov: cov}
		for i, m := range counts {
			s.Repl = append(s.Repl, []gtab.Ligature{{In: gids(i, m), Out: glyph.ID(5000 + i)}})
		}
		return s
	case "5.1":
		s := &gtab.SeqContext1{Cov: cov}
		for i, m := range counts {
			s.Rules = append(s.Rules, []*gtab.SeqRule{{Input: gids(i, m)}})
		}
		return s
	case "5.2":
		s := &gtab.SeqContext2{Cov: cov, Input: cd(), Rules: make([][]*gtab.ClassSeqRule, n+1)}
		for i, m := range counts {
			s.Rules[i+1] = []*gtab.ClassSeqRule{{Input: classes(i, m, n+1)}}
		}
		return s
	case "6.1":
		s := &gtab.ChainedSeqContext1{Cov: cov}
		for i, m := range counts {
			a := m / 3
			b := (m - a) / 2
			s.Rules = append(s.Rules, []*gtab.ChainedSeqRule{{Backtrack: gids(i, a), Input: gids(i+1, b), Lookahead: gids(i+2, m-a-b)}})
		}
		return s
	case "6.2":
		s := &gtab.ChainedSeqContext2{Cov: cov, Backtrack: cd(), Input: cd(), Lookahead: cd(), Rules: make([][]*gtab.ChainedClassSeqRule, n+1)}
		for i, m := range counts {
			a := m / 3
			b := (m - a) / 2
			s.Rules[i+1] = []*gtab.ChainedClassSeqRule{{Backtrack: classes(i, a, n+1), Input: classes(i+1, b, n+1), Lookahead: classes(i+2, m-a-b, n+1)}}
		}
		return s
	case "pair2.1":
		s := gtab.Gpos2_1{}
		for i, m := range counts {
			for j := 0; j < m; j++ {
				s[glyph.Pair{Left: first[i], Right: glyph.ID(100 + j)}] = &gtab.PairAdjust{First: &gtab.GposValueRecord{XAdvance: funit.Int16(1 + j%50)}}
			}
		}
		return s
	}
	panic(fmt.Sprintf("otl.Pieces: unknown kind %q", kind))
}
