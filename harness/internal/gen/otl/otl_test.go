package otl

import (
	"bytes"
	"math/rand/v2"
	"testing"

	"seehuhn.de/go/sfnt/opentype/gtab"
)

// TestSmoke: every supported type/format can be generated, encoded and read
// back without error in all size classes (equality is the business of C08).
func TestSmoke(t *testing.T) {
	r := rand.New(rand.NewPCG(1, 2))
	for _, tt := range []int{GSUB, GPOS} {
		for _, dsl := range []bool{false, true} {
			for _, sz := range []Size{Any, Tiny, Small, Medium, Large, Huge} {
				for _, maxGID := range []int{4, 300, 0xFFFF} {
					o := Opts{MaxGID: maxGID, Size: sz, DSL: dsl, NumLookups: 3}
					for _, lt := range LookupTypes(tt, o) {
						for _, f := range Formats(tt, lt) {
							s := Subtable(r, tt, lt, f, o)
							info := &gtab.Info{LookupList: gtab.LookupList{{
								Meta:      &gtab.LookupMetaInfo{LookupType: uint16(lt)},
								Subtables: []gtab.Subtable{s},
							}}, ScriptList: gtab.ScriptListInfo{}, FeatureList: gtab.FeatureListInfo{}}
							b := info.Encode()
							if _, err := gtab.Read(bytes.NewReader(b), gtab.Type(tt)); err != nil {
								t.Errorf("%s dsl=%v size=%d maxGID=%d len=%d: %v", Name(tt, lt, f), dsl, sz, maxGID, len(b), err)
							}
						}
					}
				}
			}
		}
		for i := 0; i < 50; i++ {
			info := Info(r, tt, Opts{MaxGID: 500})
			b := info.Encode()
			if _, err := gtab.Read(bytes.NewReader(b), gtab.Type(tt)); err != nil {
				t.Errorf("info: %v", err)
			}
		}
	}
	for i := 0; i < 50; i++ {
		Gdef(r, 1+r.IntN(70000)).Encode()
	}
	for _, n := range []int{22, 24, 1000, 65000} {
		ll := gtab.LookupList{Filler(GSUB, n)}
		info := &gtab.Info{LookupList: ll, ScriptList: gtab.ScriptListInfo{}, FeatureList: gtab.FeatureListInfo{}}
		if got := len(info.Encode()) - 10 - 2 - 2 - 4; got != n {
			t.Errorf("Filler(%d) has %d bytes", n, got)
		}
	}
}
