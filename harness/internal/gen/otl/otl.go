// Package otl contains seeded random generators for OpenType layout
// structures (GSUB, GPOS, GDEF) in the in-memory representation of
// seehuhn.de/go/sfnt/opentype/{gtab,gdef,coverage,classdef}.
//
// All generators are deterministic functions of the *rand.Rand they are
// handed and of the options.  Content is "well-formed as the binary format can
// express it" (DESIGN.md C08, note D):
//
//   - every glyph id lies in [0, Opts.MaxGID];
//   - coverage tables have indices 0..n-1 in increasing glyph order, and every
//     coverage-indexed array has exactly one entry per covered glyph;
//   - within one GPOS 1.2 / 2.1 / 2.2 subtable the nil-ness of value records
//     is uniform per position (first / second);
//   - class-indexed rule arrays are not longer than the number of classes;
//   - mark classes are smaller than the mark class count, anchors equal to
//     (0,0) mean "absent";
//   - MarkFilteringSet is 0 unless the UseMarkFilteringSet flag is set;
//   - actions of contextual lookups refer to lookup indices < Opts.NumLookups;
//   - GPOS lookup type 5 is never generated (the library has no encoder);
//   - value records have at least one of XPlacement, YPlacement, XAdvance set
//     (or are all zero) unless Opts.RichVR asks for the rarer shapes.
//
// With Opts.DSL set the output is further restricted to what the lookup
// description language of opentype/gtab/builder has syntax for: GSUB types
// 1-6 and GPOS types 1-4, flags out of {IgnoreMarks, IgnoreLigatures,
// IgnoreBaseGlyphs}, exactly one subtable for GSUB 1-4, no empty coverage for
// the map-like subtables, sorted alternate sets, contiguous non-empty glyph
// classes, value records that are nil or have a non-zero x/y/dx component, no
// device offsets, and so on (see the comments at the individual generators).
//
// # API
//
//	GIDs(r, n, maxGID)                      sorted distinct glyph ids
//	Coverage(r, o) / CoverageN(r, n, o)     coverage.Table
//	CoverageSet(r, o) / CoverageSetN        coverage.Set
//	ClassDef(r, numClasses, o)              classdef.Table using classes 1..numClasses-1
//	ValueRecord(r, o)                       *gtab.GposValueRecord (never nil)
//	Formats(tableType, lookupType)          subtable formats that can be generated
//	LookupTypes(tableType, o)               lookup types that can be generated
//	Subtable(r, tableType, lookupType, format, o)
//	Lookup(r, tableType, lookupType, o)     one lookup table (flags, 1..k subtables)
//	LookupList(r, tableType, o)             Opts.NumLookups lookups (or a random number)
//	Info(r, tableType, o)                   script list + feature list + lookup list
//	Flags(r, o)                             lookup flags + mark filtering set
//	FeatureList(r, n, numLookups)           gtab.FeatureListInfo
//	Features(r, nFeatures)                  one language system (*gtab.Features)
//	ScriptList(r, tags, nFeatures)          gtab.ScriptListInfo over a subset of tags (DefaultTags)
//	Gdef(r, nGlyphs)                        *gdef.Table
//	GdefShape(r, shape, d)                  GDEF shapes Gdef does not produce (GdefShapes: class values > 4, many / large mark glyph sets, offsets near 64 KiB)
//	BigCount(r, tableType, shape, n, o)     subtable with ONE record of n entries (CountShapes: sequences, alternate sets, rules, action lists, …, mark classes)
//	RuleSet(r, chained, format, at, sz, o)  contextual subtable whose single rule set has its last rule at byte offset at
//	Filler(tableType, nBytes)               lookup of exactly nBytes encoded bytes (header included)
//	TableOf / SetOf / ClassGlyphs / GID     small conversions and helpers
//
// Sizes: Opts.Bytes is the approximate encoded size of one subtable; when it
// is zero a size is drawn from Opts.Size (Tiny … Huge).  Huge subtables stay
// below the 64 KiB limit of their own 16-bit offsets; lookup lists beyond
// 64 KiB are obtained by combining several large subtables / lookups.
package otl

import (
	"math/rand/v2"
	"sort"

	"golang.org/x/text/language"
	"seehuhn.de/go/postscript/funit"
	"seehuhn.de/go/sfnt/glyph"
	"seehuhn.de/go/sfnt/opentype/classdef"
	"seehuhn.de/go/sfnt/opentype/coverage"
	"seehuhn.de/go/sfnt/opentype/gtab"
)

// Table types (same values as gtab.TypeGsub / gtab.TypeGpos).
const (
	GSUB = 1
	GPOS = 2
)

// Size is a size class for one subtable.
type Size int

const (
	Any    Size = iota // mixture, mostly small
	Tiny               // a few bytes
	Small              // ≲ 200 bytes
	Medium             // ≲ 4 KiB
	Large              // 8 … 30 KiB
	Huge               // 40 … 58 KiB
)

// Opts controls the generators.  The zero value is usable.
type Opts struct {
	MaxGID     int            // largest glyph id (inclusive); 0 means 0xFFFF
	Bytes      int            // approximate encoded size of one subtable; 0: drawn from Size
	Size       Size           // size class used when Bytes == 0
	DSL        bool           // only what opentype/gtab/builder can express
	NumLookups int            // nested actions refer to [0,NumLookups); LookupList length (0: random)
	DevOffs    bool           // allow non-zero device offsets in value records
	MaxSubs    int            // maximal number of subtables per lookup (0: 4)
	NumSets    int            // number of mark glyph sets lookups may refer to (0: 4)
	Tags       []language.Tag // keys for script lists (nil: DefaultTags)
	Types      []int          // restrict lookup types (nil: all supported)
	RichVR     bool           // value records may also consist of YAdvance or of device offsets alone, or have all fields set (not with DSL)

	vrStyle int // set per subtable by the GPOS generators: 1 every record YAdvance only, 2 every record device offsets only
}

func (o Opts) maxGID() int {
	if o.MaxGID <= 0 || o.MaxGID > 0xFFFF {
		return 0xFFFF
	}
	return o.MaxGID
}

func (o Opts) numLookups() int {
	if o.NumLookups <= 0 {
		return 1
	}
	return o.NumLookups
}

// target returns the approximate byte size wanted for one subtable.
func (o Opts) target(r *rand.Rand) int {
	if o.Bytes > 0 {
		return o.Bytes
	}
	sz := o.Size
	if sz == Any {
		switch x := r.IntN(20); {
		case x < 5:
			sz = Tiny
		case x < 14:
			sz = Small
		case x < 19:
			sz = Medium
		default:
			sz = Large
		}
	}
	switch sz {
	case Tiny:
		return 8 + r.IntN(24)
	case Small:
		return 20 + r.IntN(180)
	case Medium:
		return 200 + r.IntN(3800)
	case Large:
		return 8000 + r.IntN(22000)
	default:
		return 40000 + r.IntN(18000)
	}
}

// ---------------------------------------------------------------------------
// glyph sets

// GIDs returns n distinct glyph ids from [0,maxGID] in increasing order.
// The shapes are mixed: scattered singletons, runs of consecutive ids, one
// dense block, and sets that touch 0 and maxGID.  If n exceeds the number of
// available ids, all ids are returned.
func GIDs(r *rand.Rand, n, maxGID int) []glyph.ID {
	if maxGID <= 0 || maxGID > 0xFFFF {
		maxGID = 0xFFFF
	}
	total := maxGID + 1
	if n >= total {
		out := make([]glyph.ID, total)
		for i := range out {
			out[i] = glyph.ID(i)
		}
		return out
	}
	if n <= 0 {
		return nil
	}
	set := make(map[int]struct{}, n)
	add := func(g int) {
		if g >= 0 && g <= maxGID && len(set) < n {
			set[g] = struct{}{}
		}
	}
	mode := r.IntN(5)
	if r.IntN(4) == 0 {
		add(0)
	}
	if r.IntN(4) == 0 {
		add(maxGID)
	}
	switch mode {
	case 0: // scattered
	case 1, 2: // runs
		for tries := 0; len(set) < n && tries < 4*n+16; tries++ {
			l := 1 + r.IntN(1+min(n, 40))
			if mode == 2 {
				l = 1 + r.IntN(4)
			}
			s := r.IntN(total)
			for i := 0; i < l; i++ {
				add(s + i)
			}
		}
	case 3: // one dense block with a few holes
		span := n + r.IntN(1+n/8+2)
		if span > total {
			span = total
		}
		s := r.IntN(total - span + 1)
		for i := 0; i < span && len(set) < n; i++ {
			if r.IntN(16) != 0 {
				add(s + i)
			}
		}
	case 4: // every other glyph (worst case for ranges)
		s := r.IntN(total)
		for i := 0; len(set) < n && s+2*i <= maxGID; i++ {
			add(s + 2*i)
		}
	}
	// fill up
	if 2*n > total {
		perm := r.Perm(total)
		for _, g := range perm {
			if len(set) >= n {
				break
			}
			add(g)
		}
	} else {
		for len(set) < n {
			add(r.IntN(total))
		}
	}
	out := make([]glyph.ID, 0, len(set))
	for g := range set {
		out = append(out, glyph.ID(g))
	}
	sort.Slice(out, func(i, j int) bool { return out[i] < out[j] })
	return out
}

// GID returns one glyph id, with some weight on 0 and maxGID.
func GID(r *rand.Rand, o Opts) glyph.ID {
	m := o.maxGID()
	switch r.IntN(12) {
	case 0:
		return 0
	case 1:
		return glyph.ID(m)
	}
	return glyph.ID(r.IntN(m + 1))
}

func gidSeq(r *rand.Rand, n int, o Opts) []glyph.ID {
	out := make([]glyph.ID, n)
	for i := range out {
		out[i] = GID(r, o)
	}
	return out
}

// TableOf turns sorted distinct glyph ids into a coverage table.
func TableOf(gids []glyph.ID) coverage.Table {
	t := make(coverage.Table, len(gids))
	for i, g := range gids {
		t[g] = i
	}
	return t
}

// SetOf turns glyph ids into a coverage set.
func SetOf(gids []glyph.ID) coverage.Set {
	s := make(coverage.Set, len(gids))
	for _, g := range gids {
		s[g] = true
	}
	return s
}

// CoverageN returns a coverage table with n glyphs (fewer if the alphabet is
// smaller).
func CoverageN(r *rand.Rand, n int, o Opts) coverage.Table {
	return TableOf(GIDs(r, n, o.maxGID()))
}

// Coverage returns a coverage table whose size follows the options.
func Coverage(r *rand.Rand, o Opts) coverage.Table {
	return CoverageN(r, covCount(r, o), o)
}

// CoverageSetN returns a coverage set with n glyphs.
func CoverageSetN(r *rand.Rand, n int, o Opts) coverage.Set {
	return SetOf(GIDs(r, n, o.maxGID()))
}

// CoverageSet returns a coverage set whose size follows the options.
func CoverageSet(r *rand.Rand, o Opts) coverage.Set {
	return CoverageSetN(r, covCount(r, o), o)
}

func covCount(r *rand.Rand, o Opts) int {
	n := o.target(r) / 4
	if n > o.maxGID()+1 {
		n = o.maxGID() + 1
	}
	if !o.DSL && r.IntN(30) == 0 {
		return 0
	}
	if n < 1 {
		n = 1
	}
	return 1 + r.IntN(n)
}

// smallSet returns a small coverage set (for context positions).
func smallSet(r *rand.Rand, o Opts) coverage.Set {
	n := 1 + r.IntN(4)
	if r.IntN(8) == 0 {
		n = 1 + r.IntN(40)
	}
	if r.IntN(20) == 0 {
		n = 0 // an empty set is expressible ("[]") and encodable
	}
	return CoverageSetN(r, n, o)
}

// ClassDef returns a class definition table that uses the classes
// 1..numClasses-1, each for at least one glyph (as far as the alphabet
// permits), so that NumClasses() == numClasses.  Class 0 is never stored.
// With o.Bytes > 0 about o.Bytes/6 glyphs are classified (the encoded size
// stays below o.Bytes unless numClasses itself demands more).
func ClassDef(r *rand.Rand, numClasses int, o Opts) classdef.Table {
	t := classdef.Table{}
	if numClasses <= 1 {
		return t
	}
	k := numClasses - 1
	n := k + r.IntN(3*k+4)
	switch {
	case o.Bytes > 0:
		// budget: at most 6 bytes per glyph (format 2, every glyph its own range)
		n = max(k, o.Bytes/6)
		if r.IntN(3) == 0 {
			n = k + r.IntN(n-k+1)
		}
	case r.IntN(4) == 0:
		n += r.IntN(300)
	}
	gids := GIDs(r, n, o.maxGID())
	if len(gids) == 0 {
		return t
	}
	mode := r.IntN(3)
	switch mode {
	case 0: // random class per glyph
		for _, g := range gids {
			t[g] = uint16(1 + r.IntN(k))
		}
	case 1: // blocks
		cls := uint16(1 + r.IntN(k))
		for _, g := range gids {
			if r.IntN(4) == 0 {
				cls = uint16(1 + r.IntN(k))
			}
			t[g] = cls
		}
	default: // alternating
		for i, g := range gids {
			t[g] = uint16(1 + i%k)
		}
	}
	if !o.DSL && r.IntN(4) == 0 {
		return t // classes may have gaps: the binary format can express that
	}
	// make every class non-empty
	perm := r.Perm(len(gids))
	for c := 1; c <= k && c-1 < len(perm); c++ {
		t[gids[perm[c-1]]] = uint16(c)
	}
	if len(gids) < k {
		// alphabet too small: compress the classes so that they stay contiguous
		c := uint16(1)
		for _, g := range gids {
			t[g] = c
			c++
		}
	}
	return t
}

// ---------------------------------------------------------------------------
// value records, anchors, actions

func int16val(r *rand.Rand) funit.Int16 {
	switch r.IntN(10) {
	case 0:
		return 32767
	case 1:
		return -32768
	case 2:
		return funit.Int16(r.IntN(65536) - 32768)
	}
	return funit.Int16(r.IntN(2001) - 1000)
}

func nonzero16(r *rand.Rand) funit.Int16 {
	for {
		if v := int16val(r); v != 0 {
			return v
		}
	}
}

// ValueRecord returns a non-nil value record.  With o.DSL at least one of
// XPlacement, YPlacement, XAdvance is non-zero and all other fields are zero.
func ValueRecord(r *rand.Rand, o Opts) *gtab.GposValueRecord {
	if o.RichVR && !o.DSL {
		if v := richRecord(r, o); v != nil {
			return v
		}
	}
	v := &gtab.GposValueRecord{}
	mask := 1 + r.IntN(7)
	if mask&1 != 0 {
		v.XPlacement = nonzero16(r)
	}
	if mask&2 != 0 {
		v.YPlacement = nonzero16(r)
	}
	if mask&4 != 0 {
		v.XAdvance = nonzero16(r)
	}
	if o.DSL {
		return v
	}
	if r.IntN(4) == 0 {
		v.YAdvance = int16val(r)
	}
	if r.IntN(12) == 0 {
		// an all-zero record is distinct from nil in the library's model
		*v = gtab.GposValueRecord{}
	}
	if o.DevOffs && r.IntN(3) == 0 {
		v.XPlacementDevOffs = uint16(r.IntN(3) * r.IntN(65536))
		v.YPlacementDevOffs = uint16(r.IntN(2) * r.IntN(65536))
		v.XAdvanceDevOffs = uint16(r.IntN(2) * r.IntN(65536))
		v.YAdvanceDevOffs = uint16(r.IntN(2) * r.IntN(65536))
	}
	return v
}

// richRecord returns the value records the plain generator never produces:
// records whose only non-zero field is YAdvance, records that consist of
// device offsets alone (with o.DevOffs), and records with every field set.
// With o.vrStyle set every record of the subtable has the same restricted
// shape, so that the value format of the whole subtable lacks the three
// common fields.  A nil result means "use the plain generator".
func richRecord(r *rand.Rand, o Opts) *gtab.GposValueRecord {
	devOnly := func() *gtab.GposValueRecord {
		v := &gtab.GposValueRecord{}
		switch r.IntN(5) {
		case 0:
			v.XPlacementDevOffs = uint16(1 + r.IntN(65535))
		case 1:
			v.YPlacementDevOffs = uint16(1 + r.IntN(65535))
		case 2:
			v.XAdvanceDevOffs = uint16(1 + r.IntN(65535))
		case 3:
			v.YAdvanceDevOffs = uint16(1 + r.IntN(65535))
		default:
			v.XPlacementDevOffs = uint16(r.IntN(2) * (1 + r.IntN(65535)))
			v.YPlacementDevOffs = uint16(r.IntN(2) * (1 + r.IntN(65535)))
			v.XAdvanceDevOffs = uint16(r.IntN(2) * (1 + r.IntN(65535)))
			v.YAdvanceDevOffs = uint16(1 + r.IntN(65535))
		}
		return v
	}
	switch o.vrStyle {
	case 1:
		return &gtab.GposValueRecord{YAdvance: nonzero16(r)}
	case 2:
		return devOnly()
	}
	switch x := r.IntN(16); {
	case x == 0:
		return &gtab.GposValueRecord{YAdvance: nonzero16(r)}
	case x == 1 && o.DevOffs:
		return devOnly()
	case x == 2:
		v := &gtab.GposValueRecord{XPlacement: nonzero16(r), YPlacement: nonzero16(r), XAdvance: nonzero16(r), YAdvance: nonzero16(r)}
		if o.DevOffs {
			v.XPlacementDevOffs = uint16(1 + r.IntN(65535))
			v.YPlacementDevOffs = uint16(1 + r.IntN(65535))
			v.XAdvanceDevOffs = uint16(1 + r.IntN(65535))
			v.YAdvanceDevOffs = uint16(1 + r.IntN(65535))
		}
		return v
	}
	return nil
}

// vrStyled chooses a uniform restricted record shape for one subtable (see
// Opts.vrStyle) with probability 1/6 when o.RichVR is set.
func vrStyled(r *rand.Rand, o Opts) Opts {
	if !o.RichVR || o.DSL {
		return o
	}
	switch x := r.IntN(12); {
	case x == 0:
		o.vrStyle = 1
	case x == 1 && o.DevOffs:
		o.vrStyle = 2
	}
	return o
}

func actions(r *rand.Rand, inputLen int, o Opts) []gtab.SeqLookup {
	n := r.IntN(3)
	if r.IntN(10) == 0 {
		n = 3 + r.IntN(4)
	}
	if n == 0 {
		return nil
	}
	out := make([]gtab.SeqLookup, n)
	for i := range out {
		out[i] = gtab.SeqLookup{
			SequenceIndex:   uint16(r.IntN(inputLen)),
			LookupListIndex: gtab.LookupIndex(r.IntN(o.numLookups())),
		}
	}
	return out
}

func seqLen(r *rand.Rand, maxLen int) int {
	if r.IntN(3) == 0 {
		return 0
	}
	return r.IntN(maxLen + 1)
}
