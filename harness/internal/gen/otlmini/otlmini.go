// Package otlmini is a small template-based generator of GSUB/GPOS lookup
// lists and GDEF tables for the shaping monitors (C06, C07).  Every subtable
// type and format the shaping properties mention has one template; the
// random choices inside a template are biased so that short glyph sequences
// over a small alphabet match often.
//
// The generated structures have the shape the binary reader delivers
// (coverage indices dense, rule-set arrays as long as the class count, one
// value-format per subtable), unless a Hostile option says otherwise.
package otlmini

import (
	"math/rand/v2"
	"sort"

	"seehuhn.de/go/postscript/funit"

	"seehuhn.de/go/sfnt/glyph"
	"seehuhn.de/go/sfnt/opentype/anchor"
	"seehuhn.de/go/sfnt/opentype/classdef"
	"seehuhn.de/go/sfnt/opentype/coverage"
	"seehuhn.de/go/sfnt/opentype/gdef"
	"seehuhn.de/go/sfnt/opentype/gtab"
	"seehuhn.de/go/sfnt/opentype/markarray"

	"verif/harness/internal/ref/shaper"
)

// Alphabet is the glyph universe of a generated lookup list.
type Alphabet struct {
	In   []glyph.ID // glyphs used in input sequences
	Out  []glyph.ID // further glyphs which substitutions may produce
	Gdef *gdef.Table

	// MarkAdvance: every third mark glyph (by glyph id) has a non-zero advance
	// width too (a mark between a base and the mark being attached then moves
	// the pen).
	MarkAdvance bool
}

// All returns In followed by Out.
func (a *Alphabet) All() []glyph.ID {
	return append(append([]glyph.ID(nil), a.In...), a.Out...)
}

// Class returns the GDEF class of gid.
func (a *Alphabet) Class(gid glyph.ID) uint16 {
	if a.Gdef == nil || a.Gdef.GlyphClass == nil {
		return 0
	}
	return a.Gdef.GlyphClass[gid]
}

// Width is the advance width the monitors give to a non-mark glyph before
// positioning.
func (a *Alphabet) Width(gid glyph.ID) funit.Int16 {
	if a.Class(gid) == gdef.GlyphClassMark {
		if a.MarkAdvance && gid%3 == 0 {
			return funit.Int16(30 + int(gid)%50)
		}
		return 0
	}
	return funit.Int16(400 + 7*(int(gid)%40))
}

// Glyph ids of the small alphabet of the exhaustive part.
const (
	A glyph.ID = iota + 1 // base
	B                     // base
	M                     // mark, attachment class 1, in mark glyph set 0
	L                     // ligature
	X                     // unclassified
	N                     // mark, attachment class 2, in mark glyph set 1   (output only)
	Y                     // base                                           (output only)
	Z                     // unclassified                                   (output only)
	K                     // ligature                                       (output only)
)

// Small returns the five-glyph alphabet {base A, base B, mark M, ligature L,
// unclassified X} with four more glyphs that only substitutions produce.
func Small() *Alphabet { return SmallX(X) }

// SmallX is Small with another glyph id (for example 0) in the role of the
// unclassified input glyph X.  x must not be one of the other eight glyphs.
func SmallX(x glyph.ID) *Alphabet {
	return &Alphabet{
		In:  []glyph.ID{A, B, M, L, x},
		Out: []glyph.ID{N, Y, Z, K},
		Gdef: &gdef.Table{
			GlyphClass: classdef.Table{
				A: gdef.GlyphClassBase, B: gdef.GlyphClassBase, Y: gdef.GlyphClassBase,
				M: gdef.GlyphClassMark, N: gdef.GlyphClassMark,
				L: gdef.GlyphClassLigature, K: gdef.GlyphClassLigature,
			},
			MarkAttachClass: classdef.Table{M: 1, N: 2},
			MarkGlyphSets:   []coverage.Set{{M: true}, {N: true}, {M: true, N: true}},
		},
	}
}

// Random returns an alphabet of n input glyphs (and n/4+2 output-only glyphs)
// spread over the glyph id range [0, maxGid], with random GDEF data.  Glyph 0
// is one of the input glyphs with probability 1/3 and one of the output-only
// glyphs with probability 1/9.  With probability 1/8 there is no GDEF table,
// with probability 1/8 no mark attachment classes, with probability 1/8 no
// mark glyph sets.  One alphabet in 8 has glyph class values beyond the four
// defined ones, one in 10 has many (20 … 120) mark glyph sets, one in 10 a
// mark glyph set with hundreds of further glyphs, one in 6 marks with an
// advance width.
func Random(r *rand.Rand, n int, maxGid int) *Alphabet {
	a := &Alphabet{}
	seen := map[glyph.ID]bool{}
	pick := func() glyph.ID {
		for {
			g := glyph.ID(1 + r.IntN(maxGid))
			if !seen[g] {
				seen[g] = true
				return g
			}
		}
	}
	zeroAt := -1 // position of glyph 0 in In (0..n-1) or Out (n..)
	switch x := r.IntN(9); {
	case x < 3:
		zeroAt = r.IntN(n)
	case x == 3:
		zeroAt = n + r.IntN(n/4+2)
	}
	for i := 0; i < n; i++ {
		if i == zeroAt {
			a.In = append(a.In, 0)
			continue
		}
		a.In = append(a.In, pick())
	}
	for i := 0; i < n/4+2; i++ {
		if n+i == zeroAt {
			a.Out = append(a.Out, 0)
			continue
		}
		a.Out = append(a.Out, pick())
	}
	if r.IntN(8) == 0 {
		return a
	}
	a.MarkAdvance = r.IntN(6) == 0
	gd := &gdef.Table{GlyphClass: classdef.Table{}}
	var marks []glyph.ID
	oddClasses := r.IntN(8) == 0
	for _, g := range a.All() {
		// 0 unclassified, 1 base, 2 ligature, 3 mark, 4 component
		c := []uint16{0, 1, 1, 1, 2, 3, 3, 3, 4}[r.IntN(9)]
		if oddClasses && r.IntN(4) == 0 {
			// values without a meaning: such glyphs are never skipped
			c = []uint16{5, 6, 7, 255, 256, 0x8000, 0xFFFF}[r.IntN(7)]
		}
		if c != 0 {
			gd.GlyphClass[g] = c
		}
		if c == gdef.GlyphClassMark {
			marks = append(marks, g)
		}
	}
	if r.IntN(8) != 0 {
		gd.MarkAttachClass = classdef.Table{}
		for _, g := range marks {
			if c := uint16(r.IntN(4)); c != 0 {
				gd.MarkAttachClass[g] = c
			}
		}
		// attachment classes may also be recorded for non-marks; they must
		// have no effect
		if len(a.In) > 0 && r.IntN(2) == 0 {
			gd.MarkAttachClass[a.In[r.IntN(len(a.In))]] = uint16(1 + r.IntN(3))
		}
	}
	if r.IntN(8) != 0 {
		ns := 1 + r.IntN(3)
		many, large := r.IntN(10) == 0, r.IntN(10) == 0
		if many {
			ns = 20 + r.IntN(101)
		}
		for i := 0; i < ns; i++ {
			set := coverage.Set{}
			for _, g := range marks {
				if r.IntN(2) == 0 {
					set[g] = true
				}
			}
			if len(a.In) > 0 && r.IntN(4) == 0 {
				set[a.In[r.IntN(len(a.In))]] = true // possibly a non-mark
			}
			if large && i == 0 {
				// glyphs outside the alphabet (they may turn up in input sequences)
				for j, m := 0, 300+r.IntN(2000); j < m; j++ {
					set[glyph.ID(r.IntN(65536))] = true
				}
			}
			gd.MarkGlyphSets = append(gd.MarkGlyphSets, set)
		}
	}
	a.Gdef = gd
	return a
}

// FlagSet enumerates the seven flag sets of the exhaustive part.
type FlagSet int

const (
	FlagsNone FlagSet = iota
	FlagsNoBase
	FlagsNoLigs
	FlagsNoMarks
	FlagsFilterSet
	FlagsAttachType
	FlagsNoBaseNoLigs
	NumFlagSets
)

var flagSetNames = [NumFlagSets]string{"none", "-base", "-ligs", "-marks", "filtering-set", "attachment-type", "-base-ligs"}

func (f FlagSet) String() string { return flagSetNames[f] }

// ClassifyFlags maps lookup flags back to one of the seven flag sets (or -1
// for other combinations).
func ClassifyFlags(f gtab.LookupFlags) FlagSet {
	f &^= gtab.RightToLeft
	switch {
	case f == 0:
		return FlagsNone
	case f == gtab.IgnoreBaseGlyphs:
		return FlagsNoBase
	case f == gtab.IgnoreLigatures:
		return FlagsNoLigs
	case f == gtab.IgnoreMarks:
		return FlagsNoMarks
	case f == gtab.UseMarkFilteringSet:
		return FlagsFilterSet
	case f&^gtab.MarkAttachTypeMask == 0:
		return FlagsAttachType
	case f == gtab.IgnoreBaseGlyphs|gtab.IgnoreLigatures:
		return FlagsNoBaseNoLigs
	}
	return -1
}

// Gen generates lookups over an alphabet.
type Gen struct {
	R *rand.Rand
	A *Alphabet

	// Targets are the lookup indices nested actions may refer to.
	Targets []gtab.LookupIndex

	// MaxSeq bounds the length of input sequences of rules (default 3).
	MaxSeq int

	// WildFlags: also produce flag combinations outside the seven sets.
	WildFlags bool

	// NoDelta: never produce GSUB 1.1 (its delta arithmetic can leave the
	// alphabet); format 1.2 is generated instead.
	NoDelta bool

	// MaxNested bounds the number of lookups that exist only as targets of
	// nested actions (default 3).
	MaxNested int
}

func (g *Gen) maxNested() int {
	if g.MaxNested <= 0 {
		return 3
	}
	return g.MaxNested
}

func (g *Gen) maxSeq() int {
	if g.MaxSeq <= 0 {
		return 3
	}
	return g.MaxSeq
}

// Meta builds lookup meta information for a flag set.
func (g *Gen) Meta(lookupType uint16, fs FlagSet) *gtab.LookupMetaInfo {
	m := &gtab.LookupMetaInfo{LookupType: lookupType}
	nSets := 0
	if g.A.Gdef != nil {
		nSets = len(g.A.Gdef.MarkGlyphSets)
	}
	switch fs {
	case FlagsNoBase:
		m.LookupFlags = gtab.IgnoreBaseGlyphs
	case FlagsNoLigs:
		m.LookupFlags = gtab.IgnoreLigatures
	case FlagsNoMarks:
		m.LookupFlags = gtab.IgnoreMarks
	case FlagsFilterSet:
		if nSets == 0 {
			// a filtering set that does not exist is the business of C07
			m.LookupFlags = gtab.IgnoreMarks
			break
		}
		m.LookupFlags = gtab.UseMarkFilteringSet
		m.MarkFilteringSet = uint16(g.R.IntN(nSets))
	case FlagsAttachType:
		m.LookupFlags = gtab.LookupFlags(1+g.R.IntN(3)) << 8
	case FlagsNoBaseNoLigs:
		m.LookupFlags = gtab.IgnoreBaseGlyphs | gtab.IgnoreLigatures
	}
	if g.WildFlags && g.R.IntN(4) == 0 {
		// precedence: IgnoreMarks over filtering set over attachment type
		switch g.R.IntN(4) {
		case 0:
			m.LookupFlags |= gtab.IgnoreMarks
		case 1:
			if nSets > 0 && m.LookupFlags&gtab.UseMarkFilteringSet == 0 {
				m.LookupFlags |= gtab.UseMarkFilteringSet
				m.MarkFilteringSet = uint16(g.R.IntN(nSets))
			}
		case 2:
			m.LookupFlags |= gtab.LookupFlags(1+g.R.IntN(3)) << 8
		case 3:
			m.LookupFlags |= gtab.LookupFlags(g.R.IntN(8)) << 1 & (gtab.IgnoreBaseGlyphs | gtab.IgnoreLigatures | gtab.IgnoreMarks)
		}
	}
	return m
}

// ignored mirrors chapter 2 lookup flags; it is only used to bias the
// generator towards glyphs a lookup can see.
func (g *Gen) ignored(m *gtab.LookupMetaInfo, gid glyph.ID) bool {
	gd := g.A.Gdef
	if gd == nil || gd.GlyphClass == nil {
		return false
	}
	f := m.LookupFlags
	switch gd.GlyphClass[gid] {
	case gdef.GlyphClassBase:
		return f&gtab.IgnoreBaseGlyphs != 0
	case gdef.GlyphClassLigature:
		return f&gtab.IgnoreLigatures != 0
	case gdef.GlyphClassMark:
		if f&gtab.IgnoreMarks != 0 {
			return true
		}
		if f&gtab.UseMarkFilteringSet != 0 {
			if int(m.MarkFilteringSet) >= len(gd.MarkGlyphSets) {
				return true
			}
			return !gd.MarkGlyphSets[m.MarkFilteringSet][gid]
		}
		if t := uint16(f >> 8); t != 0 {
			return gd.MarkAttachClass[gid] != t
		}
	}
	return false
}

// visible picks a glyph of the input alphabet, with probability 7/8 one the
// lookup does not ignore.
func (g *Gen) visible(m *gtab.LookupMetaInfo) glyph.ID {
	in := g.A.In
	if g.R.IntN(8) != 0 {
		for try := 0; try < 8; try++ {
			c := in[g.R.IntN(len(in))]
			if !g.ignored(m, c) {
				return c
			}
		}
	}
	return in[g.R.IntN(len(in))]
}

// any picks a glyph from the whole alphabet, input glyphs with probability 3/4.
func (g *Gen) any() glyph.ID {
	if len(g.A.Out) > 0 && g.R.IntN(4) == 0 {
		return g.A.Out[g.R.IntN(len(g.A.Out))]
	}
	return g.A.In[g.R.IntN(len(g.A.In))]
}

func (g *Gen) glyphSet(m *gtab.LookupMetaInfo, lo, hi int) []glyph.ID {
	n := lo + g.R.IntN(hi-lo+1)
	set := map[glyph.ID]bool{}
	for i := 0; i < n; i++ {
		set[g.visible(m)] = true
	}
	out := make([]glyph.ID, 0, len(set))
	for gid := range set {
		out = append(out, gid)
	}
	sort.Slice(out, func(i, j int) bool { return out[i] < out[j] })
	return out
}

func covTable(gids []glyph.ID) coverage.Table {
	t := coverage.Table{}
	for i, gid := range gids {
		t[gid] = i
	}
	return t
}

func covSet(gids []glyph.ID) coverage.Set {
	s := coverage.Set{}
	for _, gid := range gids {
		s[gid] = true
	}
	return s
}

func (g *Gen) seq(m *gtab.LookupMetaInfo, n int) []glyph.ID {
	out := make([]glyph.ID, n)
	for i := range out {
		out[i] = g.visible(m)
	}
	return out
}

func (g *Gen) actions(inputLen int) []gtab.SeqLookup {
	if len(g.Targets) == 0 {
		return nil
	}
	n := 1 + g.R.IntN(3)
	if g.R.IntN(8) == 0 {
		n = 0
	}
	out := make([]gtab.SeqLookup, n)
	for i := range out {
		out[i] = gtab.SeqLookup{
			SequenceIndex:   uint16(g.R.IntN(inputLen)),
			LookupListIndex: g.Targets[g.R.IntN(len(g.Targets))],
		}
	}
	return out
}

func (g *Gen) value(allowNil bool) *gtab.GposValueRecord {
	if allowNil && g.R.IntN(6) == 0 {
		return nil
	}
	v := &gtab.GposValueRecord{}
	small := func() funit.Int16 {
		if g.R.IntN(3) == 0 {
			return 0
		}
		return funit.Int16(g.R.IntN(121) - 60)
	}
	v.XPlacement, v.YPlacement, v.XAdvance = small(), small(), small()
	return v
}

// anchorTable draws an anchor.  allowEmpty is for the anchors of base and
// mark2 rows, where (0,0) means "no anchor" (probability 1/5); the anchor of
// a mark record is mandatory and (0,0) is a position like any other there
// (probability 1/8).  One anchor in 8 lies on the baseline (y = 0, x != 0),
// one in 8 below it.
func (g *Gen) anchorTable(allowEmpty bool) anchor.Table {
	r := g.R
	if allowEmpty && r.IntN(5) == 0 {
		return anchor.Table{}
	}
	x := funit.Int16(r.IntN(601) - 300)
	switch r.IntN(8) {
	case 0:
		if !allowEmpty {
			return anchor.Table{} // a mark attached at its origin
		}
	case 1:
		if x == 0 {
			x = 17
		}
		return anchor.Table{X: x, Y: 0}
	case 2:
		return anchor.Table{X: x, Y: funit.Int16(-1 - r.IntN(400))}
	}
	return anchor.Table{X: x, Y: funit.Int16(1 + r.IntN(800))}
}

// classDef assigns classes 0..nc-1 to the glyphs of the alphabet (class 0
// stays implicit).  It guarantees that the highest class is used so that the
// class count is nc.
func (g *Gen) classDef(nc int) classdef.Table {
	t := classdef.Table{}
	all := g.A.All()
	for _, gid := range all {
		if c := uint16(g.R.IntN(nc)); c != 0 {
			t[gid] = c
		}
	}
	if nc > 1 {
		t[all[g.R.IntN(len(all))]] = uint16(nc - 1)
	}
	return t
}

// LookupType returns the lookup type number of a subtable kind.
func LookupType(k shaper.Kind) uint16 {
	switch k {
	case shaper.Gsub1_1, shaper.Gsub1_2, shaper.Gpos1_1, shaper.Gpos1_2:
		return 1
	case shaper.Gsub2_1, shaper.Gpos2_1, shaper.Gpos2_2:
		return 2
	case shaper.Gsub3_1:
		return 3
	case shaper.Gsub4_1, shaper.Gpos4_1:
		return 4
	case shaper.Gsub5_1, shaper.Gsub5_2, shaper.Gsub5_3:
		return 5
	case shaper.Gsub6_1, shaper.Gsub6_2, shaper.Gsub6_3, shaper.Gpos6_1:
		return 6
	case shaper.Gpos7_1, shaper.Gpos7_2, shaper.Gpos7_3:
		return 7
	case shaper.Gsub8_1, shaper.Gpos8_1, shaper.Gpos8_2, shaper.Gpos8_3:
		return 8
	}
	return 0
}

// IsGpos reports whether the kind belongs to GPOS.
func IsGpos(k shaper.Kind) bool { return k >= shaper.Gpos1_1 }

// IsContext reports whether the kind is a (chained) contextual lookup.
func IsContext(k shaper.Kind) bool {
	switch k {
	case shaper.Gsub5_1, shaper.Gsub5_2, shaper.Gsub5_3, shaper.Gsub6_1, shaper.Gsub6_2, shaper.Gsub6_3,
		shaper.Gpos7_1, shaper.Gpos7_2, shaper.Gpos7_3, shaper.Gpos8_1, shaper.Gpos8_2, shaper.Gpos8_3:
		return true
	}
	return false
}

// GsubKinds and GposKinds list the kinds per table.
var (
	GsubKinds = []shaper.Kind{shaper.Gsub1_1, shaper.Gsub1_2, shaper.Gsub2_1, shaper.Gsub3_1, shaper.Gsub4_1,
		shaper.Gsub5_1, shaper.Gsub5_2, shaper.Gsub5_3, shaper.Gsub6_1, shaper.Gsub6_2, shaper.Gsub6_3, shaper.Gsub8_1}
	GposKinds = []shaper.Kind{shaper.Gpos1_1, shaper.Gpos1_2, shaper.Gpos2_1, shaper.Gpos2_2, shaper.Gpos4_1, shaper.Gpos6_1,
		shaper.Gpos7_1, shaper.Gpos7_2, shaper.Gpos7_3, shaper.Gpos8_1, shaper.Gpos8_2, shaper.Gpos8_3}
	GsubSimple = []shaper.Kind{shaper.Gsub1_1, shaper.Gsub1_2, shaper.Gsub2_1, shaper.Gsub3_1, shaper.Gsub4_1}
	GposSimple = []shaper.Kind{shaper.Gpos1_1, shaper.Gpos1_2, shaper.Gpos2_1, shaper.Gpos2_2, shaper.Gpos4_1, shaper.Gpos6_1}
)

// Subtable generates one subtable of the given kind for a lookup with the
// given meta information.
func (g *Gen) Subtable(k shaper.Kind, m *gtab.LookupMetaInfo) gtab.Subtable {
	r := g.R
	if k == shaper.Gsub1_1 && g.NoDelta {
		k = shaper.Gsub1_2
	}
	switch k {
	case shaper.Gsub1_1:
		deltas := []glyph.ID{1, 2, 3, 4, 0xFFFF, 0xFFFE}
		return &gtab.Gsub1_1{Cov: covSet(g.glyphSet(m, 1, 3)), Delta: deltas[r.IntN(len(deltas))]}

	case shaper.Gsub1_2:
		gl := g.glyphSet(m, 1, 3)
		sub := make([]glyph.ID, len(gl))
		for i := range sub {
			sub[i] = g.any()
		}
		return &gtab.Gsub1_2{Cov: covTable(gl), SubstituteGlyphIDs: sub}

	case shaper.Gsub2_1:
		gl := g.glyphSet(m, 1, 3)
		repl := make([][]glyph.ID, len(gl))
		for i := range repl {
			n := 1 + r.IntN(3)
			for j := 0; j < n; j++ {
				repl[i] = append(repl[i], g.any())
			}
		}
		return &gtab.Gsub2_1{Cov: covTable(gl), Repl: repl}

	case shaper.Gsub3_1:
		gl := g.glyphSet(m, 1, 3)
		alt := make([][]glyph.ID, len(gl))
		for i := range alt {
			n := r.IntN(4) // empty sets are allowed: the lookup is then ignored
			alt[i] = []glyph.ID{}
			for j := 0; j < n; j++ {
				alt[i] = append(alt[i], g.any())
			}
		}
		return &gtab.Gsub3_1{Cov: covTable(gl), Alternates: alt}

	case shaper.Gsub4_1:
		gl := g.glyphSet(m, 1, 2)
		repl := make([][]gtab.Ligature, len(gl))
		for i := range repl {
			n := 2 + r.IntN(2) // several ligatures sharing a first glyph
			for j := 0; j < n; j++ {
				nc := r.IntN(g.maxSeq())
				if j == 0 && nc == 0 {
					nc = 1 + r.IntN(2) // a one-component ligature first would shadow the rest
				}
				repl[i] = append(repl[i], gtab.Ligature{In: g.seq(m, nc), Out: g.any()})
			}
		}
		return &gtab.Gsub4_1{Cov: covTable(gl), Repl: repl}

	case shaper.Gsub8_1:
		gl := g.glyphSet(m, 1, 3)
		sub := make([]glyph.ID, len(gl))
		for i := range sub {
			sub[i] = g.any()
		}
		l := &gtab.Gsub8_1{Input: covTable(gl), SubstituteGlyphIDs: sub}
		for i, n := 0, r.IntN(3); i < n; i++ {
			l.Backtrack = append(l.Backtrack, covTable(g.glyphSet(m, 1, 3)))
		}
		for i, n := 0, r.IntN(3); i < n; i++ {
			l.Lookahead = append(l.Lookahead, covTable(g.glyphSet(m, 1, 3)))
		}
		return l

	case shaper.Gpos1_1:
		return &gtab.Gpos1_1{Cov: covTable(g.glyphSet(m, 1, 3)), Adjust: g.value(true)}

	case shaper.Gpos1_2:
		gl := g.glyphSet(m, 1, 3)
		adj := make([]*gtab.GposValueRecord, len(gl))
		for i := range adj {
			adj[i] = g.value(false)
		}
		return &gtab.Gpos1_2{Cov: covTable(gl), Adjust: adj}

	case shaper.Gpos2_1:
		l := gtab.Gpos2_1{}
		withSecond := r.IntN(2) == 0
		// value format 0 for the first glyph: the records carry no value for
		// it (with no second value either, a record is empty - it still is a
		// match and keeps later subtables from being tried)
		firstNil := r.IntN(5) == 0
		for i, n := 0, 1+r.IntN(4); i < n; i++ {
			pa := &gtab.PairAdjust{}
			if !firstNil {
				pa.First = g.value(false)
			}
			if withSecond {
				pa.Second = g.value(false)
			}
			l[glyph.Pair{Left: g.visible(m), Right: g.visible(m)}] = pa
		}
		return l

	case shaper.Gpos2_2:
		nc1, nc2 := 1+r.IntN(3), 1+r.IntN(3)
		l := &gtab.Gpos2_2{Cov: covSet(g.glyphSet(m, 1, 3)), Class1: g.classDef(nc1), Class2: g.classDef(nc2)}
		withSecond := r.IntN(2) == 0
		firstNil := r.IntN(5) == 0 // see Gpos2_1
		for i := 0; i < nc1; i++ {
			row := make([]*gtab.PairAdjust, nc2)
			for j := range row {
				row[j] = &gtab.PairAdjust{}
				if !firstNil {
					row[j].First = g.value(false)
				}
				if withSecond {
					row[j].Second = g.value(false)
				}
			}
			l.Adjust = append(l.Adjust, row)
		}
		return l

	case shaper.Gpos4_1, shaper.Gpos6_1:
		var marks, bases []glyph.ID
		for _, gid := range g.A.All() {
			isMark := g.A.Class(gid) == gdef.GlyphClassMark
			if g.A.Gdef == nil || g.A.Gdef.GlyphClass == nil {
				isMark = r.IntN(3) == 0
			}
			switch {
			case isMark && r.IntN(5) != 0:
				marks = append(marks, gid)
			case !isMark && r.IntN(8) != 0:
				bases = append(bases, gid)
			case r.IntN(10) == 0:
				// occasionally a glyph on the "wrong" side
				if isMark {
					bases = append(bases, gid)
				} else {
					marks = append(marks, gid)
				}
			}
		}
		if len(marks) == 0 {
			marks = []glyph.ID{g.A.In[r.IntN(len(g.A.In))]}
		}
		sort.Slice(marks, func(i, j int) bool { return marks[i] < marks[j] })
		marks = uniq(marks)
		nc := 1 + r.IntN(2)
		recs := make([]markarray.Record, len(marks))
		for i := range recs {
			recs[i] = markarray.Record{Class: uint16(r.IntN(nc)), Table: g.anchorTable(false)}
		}
		if k == shaper.Gpos6_1 {
			// attach marks to marks
			var m2 []glyph.ID
			for _, gid := range marks {
				if r.IntN(5) != 0 {
					m2 = append(m2, gid)
				}
			}
			if len(m2) == 0 {
				m2 = marks[:1]
			}
			rows := make([][]anchor.Table, len(m2))
			for i := range rows {
				rows[i] = make([]anchor.Table, nc)
				for j := range rows[i] {
					rows[i][j] = g.anchorTable(true)
				}
			}
			return &gtab.Gpos6_1{Mark1Cov: covTable(marks), Mark2Cov: covTable(m2), Mark1Array: recs, Mark2Array: rows}
		}
		if len(bases) == 0 {
			bases = []glyph.ID{g.A.In[r.IntN(len(g.A.In))]}
		}
		sort.Slice(bases, func(i, j int) bool { return bases[i] < bases[j] })
		bases = uniq(bases)
		rows := make([][]anchor.Table, len(bases))
		for i := range rows {
			rows[i] = make([]anchor.Table, nc)
			for j := range rows[i] {
				rows[i][j] = g.anchorTable(true)
			}
		}
		return &gtab.Gpos4_1{MarkCov: covTable(marks), BaseCov: covTable(bases), MarkArray: recs, BaseArray: rows}

	case shaper.Gsub5_1, shaper.Gpos7_1:
		gl := g.glyphSet(m, 1, 2)
		rules := make([][]*gtab.SeqRule, len(gl))
		for i := range rules {
			for j, n := 0, 1+r.IntN(2); j < n; j++ {
				in := g.seq(m, r.IntN(g.maxSeq()))
				rules[i] = append(rules[i], &gtab.SeqRule{Input: in, Actions: g.actions(len(in) + 1)})
			}
		}
		return &gtab.SeqContext1{Cov: covTable(gl), Rules: rules}

	case shaper.Gsub5_2, shaper.Gpos7_2:
		nc := 1 + r.IntN(3)
		cd := g.classDef(nc)
		l := &gtab.SeqContext2{Cov: covTable(g.glyphSet(m, 1, 3)), Input: cd, Rules: make([][]*gtab.ClassSeqRule, cd.NumClasses())}
		for i := range l.Rules {
			if r.IntN(4) == 0 {
				continue // no rule set for this class
			}
			for j, n := 0, 1+r.IntN(2); j < n; j++ {
				in := make([]uint16, r.IntN(g.maxSeq()))
				for q := range in {
					in[q] = uint16(r.IntN(nc))
				}
				l.Rules[i] = append(l.Rules[i], &gtab.ClassSeqRule{Input: in, Actions: g.actions(len(in) + 1)})
			}
		}
		return l

	case shaper.Gsub5_3, shaper.Gpos7_3:
		n := 1 + r.IntN(g.maxSeq())
		l := &gtab.SeqContext3{}
		for i := 0; i < n; i++ {
			l.Input = append(l.Input, covSet(g.glyphSet(m, 1, 3)))
		}
		l.Actions = g.actions(n)
		return l

	case shaper.Gsub6_1, shaper.Gpos8_1:
		gl := g.glyphSet(m, 1, 2)
		rules := make([][]*gtab.ChainedSeqRule, len(gl))
		for i := range rules {
			for j, n := 0, 1+r.IntN(2); j < n; j++ {
				in := g.seq(m, r.IntN(g.maxSeq()))
				rules[i] = append(rules[i], &gtab.ChainedSeqRule{
					Backtrack: g.seq(m, r.IntN(3)),
					Input:     in,
					Lookahead: g.seq(m, r.IntN(3)),
					Actions:   g.actions(len(in) + 1),
				})
			}
		}
		return &gtab.ChainedSeqContext1{Cov: covTable(gl), Rules: rules}

	case shaper.Gsub6_2, shaper.Gpos8_2:
		nc := 1 + r.IntN(3)
		nb, nl := 1+r.IntN(3), 1+r.IntN(3)
		cd := g.classDef(nc)
		l := &gtab.ChainedSeqContext2{Cov: covTable(g.glyphSet(m, 1, 3)), Input: cd,
			Backtrack: g.classDef(nb), Lookahead: g.classDef(nl), Rules: make([][]*gtab.ChainedClassSeqRule, cd.NumClasses())}
		classes := func(n, nc int) []uint16 {
			out := make([]uint16, n)
			for i := range out {
				out[i] = uint16(r.IntN(nc))
			}
			return out
		}
		for i := range l.Rules {
			if r.IntN(4) == 0 {
				continue
			}
			for j, n := 0, 1+r.IntN(2); j < n; j++ {
				in := classes(r.IntN(g.maxSeq()), nc)
				l.Rules[i] = append(l.Rules[i], &gtab.ChainedClassSeqRule{
					Backtrack: classes(r.IntN(3), nb),
					Input:     in,
					Lookahead: classes(r.IntN(3), nl),
					Actions:   g.actions(len(in) + 1),
				})
			}
		}
		return l

	case shaper.Gsub6_3, shaper.Gpos8_3:
		n := 1 + r.IntN(g.maxSeq())
		l := &gtab.ChainedSeqContext3{}
		for i := 0; i < n; i++ {
			l.Input = append(l.Input, covSet(g.glyphSet(m, 1, 3)))
		}
		for i, nb := 0, r.IntN(3); i < nb; i++ {
			l.Backtrack = append(l.Backtrack, covSet(g.glyphSet(m, 1, 3)))
		}
		for i, nl := 0, r.IntN(3); i < nl; i++ {
			l.Lookahead = append(l.Lookahead, covSet(g.glyphSet(m, 1, 3)))
		}
		l.Actions = g.actions(n)
		return l
	}
	panic("otlmini: unknown kind")
}

func uniq(s []glyph.ID) []glyph.ID {
	out := s[:0]
	for i, x := range s {
		if i == 0 || x != s[i-1] {
			out = append(out, x)
		}
	}
	return out
}

// Lookup generates a lookup of the given kind with one or (probability 1/3)
// two subtables; a second subtable may have another format of the same type.
func (g *Gen) Lookup(k shaper.Kind, fs FlagSet) *gtab.LookupTable {
	m := g.Meta(LookupType(k), fs)
	lt := &gtab.LookupTable{Meta: m, Subtables: []gtab.Subtable{g.Subtable(k, m)}}
	if g.R.IntN(3) == 0 {
		lt.Subtables = append(lt.Subtables, g.Subtable(g.sibling(k), m))
		if g.R.IntN(2) == 0 {
			lt.Subtables[0], lt.Subtables[1] = lt.Subtables[1], lt.Subtables[0]
		}
	}
	return lt
}

// sibling returns a kind of the same lookup type (another format, if any).
func (g *Gen) sibling(k shaper.Kind) shaper.Kind {
	var sibs []shaper.Kind
	kinds := GsubKinds
	if IsGpos(k) {
		kinds = GposKinds
	}
	for _, c := range kinds {
		if LookupType(c) == LookupType(k) {
			sibs = append(sibs, c)
		}
	}
	return sibs[g.R.IntN(len(sibs))]
}

// List is a generated lookup list with the order in which its top-level
// lookups are to be applied.
type List struct {
	LL      gtab.LookupList
	Lookups []gtab.LookupIndex
	Gpos    bool
	Primary shaper.Kind
	Flags   FlagSet
}

// GenList builds a list around a primary lookup of the given kind and flag
// set: nTop top-level lookups (the primary one and nTop-1 of random kinds of
// the same table) applied in random order, and - if any of them is
// contextual - one to three further lookups which nested actions refer to.
// With depth > 1 nested targets may be contextual themselves (their actions
// point to the lookups behind them in the list, so that chains are acyclic,
// except that with selfRef a lookup may also refer to itself or an earlier one).
func (g *Gen) GenList(primary shaper.Kind, fs FlagSet, nTop, depth int, selfRef bool) *List {
	r := g.R
	gpos := IsGpos(primary)
	kinds, simple := GsubKinds, GsubSimple
	if gpos {
		kinds, simple = GposKinds, GposSimple
	}
	topKinds := []shaper.Kind{primary}
	for i := 1; i < nTop; i++ {
		k := kinds[r.IntN(len(kinds))]
		if k == shaper.Gsub8_1 && r.IntN(2) == 0 {
			k = simple[r.IntN(len(simple))]
		}
		topKinds = append(topKinds, k)
	}
	anyCtx := false
	for _, k := range topKinds {
		anyCtx = anyCtx || IsContext(k)
	}
	var nestedKinds []shaper.Kind
	if anyCtx {
		n := 1 + r.IntN(g.maxNested())
		if depth > 1 && n < 2 {
			n = 2
		}
		for i := 0; i < n; i++ {
			k := simple[r.IntN(len(simple))]
			if depth > 1 && i < n-1 && r.IntN(3) != 0 {
				// a contextual nested lookup; the last nested lookup is
				// always simple so that chains end
				for {
					k = kinds[r.IntN(len(kinds))]
					if IsContext(k) {
						break
					}
				}
			}
			nestedKinds = append(nestedKinds, k)
		}
	}
	total := len(topKinds) + len(nestedKinds)
	l := &List{Gpos: gpos, Primary: primary, Flags: fs, LL: make(gtab.LookupList, total)}
	// build from the back so that action targets exist
	for i := total - 1; i >= 0; i-- {
		var k shaper.Kind
		flags := FlagSet(r.IntN(int(NumFlagSets)))
		if r.IntN(2) == 0 {
			flags = FlagsNone
		}
		if i < len(topKinds) {
			k = topKinds[i]
			if i == 0 {
				flags = fs
			}
		} else {
			k = nestedKinds[i-len(topKinds)]
		}
		g.Targets = g.Targets[:0]
		lo := len(topKinds)
		if i >= lo {
			lo = i + 1
		}
		for j := lo; j < total; j++ {
			g.Targets = append(g.Targets, gtab.LookupIndex(j))
		}
		if selfRef && IsContext(k) && r.IntN(3) == 0 {
			g.Targets = append(g.Targets, gtab.LookupIndex(r.IntN(i+1)))
		}
		l.LL[i] = g.Lookup(k, flags)
	}
	for i := range topKinds {
		l.Lookups = append(l.Lookups, gtab.LookupIndex(i))
	}
	r.Shuffle(len(l.Lookups), func(i, j int) { l.Lookups[i], l.Lookups[j] = l.Lookups[j], l.Lookups[i] })
	return l
}
