// Package otlbytes writes small GSUB tables byte by byte, following the
// OpenType specification (chapter 2 and the GSUB chapter) and nothing else.
// It does not use the library's encoders, so that hostile shapes reach
// gtab.Read on a path that is independent of them.  There is no validation
// whatsoever: counts, indices and offsets are written as given.
package otlbytes

// W is a big-endian byte writer.
type W struct{ B []byte }

func (w *W) U16(vs ...int) {
	for _, v := range vs {
		w.B = append(w.B, byte(v>>8), byte(v))
	}
}

func (w *W) Tag(s string) { w.B = append(w.B, s[0], s[1], s[2], s[3]) }

// Block assembles a header of 16-bit fields followed by sub-blocks; the
// offsets of the sub-blocks (relative to the start of the block) are written
// where the header contains the placeholder Off(i).
type Block struct {
	Head []int // values; negative value -(i+1) = offset of child i
	Kids [][]byte
	Tail []int // further 16-bit values written after the offsets are known (before the children)
}

// Off is the placeholder for the offset of child i.
func Off(i int) int { return -(i + 1) }

// Bytes lays the block out: head, tail, then the children in order.
func (b Block) Bytes() []byte {
	size := 2 * (len(b.Head) + len(b.Tail))
	offs := make([]int, len(b.Kids))
	for i, k := range b.Kids {
		offs[i] = size
		size += len(k)
	}
	w := &W{}
	for _, v := range append(append([]int(nil), b.Head...), b.Tail...) {
		if v < 0 {
			v = offs[-v-1]
		}
		w.U16(v)
	}
	for _, k := range b.Kids {
		w.B = append(w.B, k...)
	}
	return w.B
}

// Coverage writes a coverage table, format 1 (glyph ids must ascend).
func Coverage(gids ...int) []byte {
	w := &W{}
	w.U16(1, len(gids))
	w.U16(gids...)
	return w.B
}

// CoverageRanges writes a coverage table, format 2, from (start glyph, end
// glyph, start coverage index) triples, exactly as given.
func CoverageRanges(ranges ...[3]int) []byte {
	w := &W{}
	w.U16(2, len(ranges))
	for _, r := range ranges {
		w.U16(r[0], r[1], r[2])
	}
	return w.B
}

// ReplaceCoverage returns a copy of a subtable whose second field is the
// offset of its coverage table (all GSUB subtables written by this package
// except the format 3 contexts), with that offset pointing at cov, which is
// appended at the end.
func ReplaceCoverage(sub, cov []byte) []byte {
	out := append([]byte(nil), sub...)
	out[2], out[3] = byte(len(out)>>8), byte(len(out))
	return append(out, cov...)
}

// ClassDef writes a class definition table, format 1.
func ClassDef(startGlyph int, classes ...int) []byte {
	w := &W{}
	w.U16(1, startGlyph, len(classes))
	w.U16(classes...)
	return w.B
}

// SeqLookup is a sequence lookup record.
type SeqLookup struct{ SequenceIndex, LookupListIndex int }

func records(rs []SeqLookup) []int {
	var out []int
	for _, r := range rs {
		out = append(out, r.SequenceIndex, r.LookupListIndex)
	}
	return out
}

// Single2 writes a single substitution subtable, format 2.
func Single2(cov []int, subst []int) []byte {
	head := []int{2, Off(0), len(subst)}
	head = append(head, subst...)
	return Block{Head: head, Kids: [][]byte{Coverage(cov...)}}.Bytes()
}

// Multiple writes a multiple substitution subtable; sequences may be empty.
func Multiple(cov []int, seqs [][]int) []byte {
	head := []int{1, Off(0), len(seqs)}
	kids := [][]byte{Coverage(cov...)}
	for i, s := range seqs {
		head = append(head, Off(i+1))
		w := &W{}
		w.U16(len(s))
		w.U16(s...)
		kids = append(kids, w.B)
	}
	return Block{Head: head, Kids: kids}.Bytes()
}

// Alternate writes an alternate substitution subtable; sets may be empty.
func Alternate(cov []int, sets [][]int) []byte { return Multiple(cov, sets) }

// Lig is one ligature: the components after the first glyph and the result.
type Lig struct {
	Rest []int
	Out  int
}

// Ligature writes a ligature substitution subtable.
func Ligature(cov []int, sets [][]Lig) []byte {
	head := []int{1, Off(0), len(sets)}
	kids := [][]byte{Coverage(cov...)}
	for i, set := range sets {
		head = append(head, Off(i+1))
		sh := []int{len(set)}
		var sk [][]byte
		for j, l := range set {
			sh = append(sh, Off(j))
			w := &W{}
			w.U16(l.Out, len(l.Rest)+1)
			w.U16(l.Rest...)
			sk = append(sk, w.B)
		}
		kids = append(kids, Block{Head: sh, Kids: sk}.Bytes())
	}
	return Block{Head: head, Kids: kids}.Bytes()
}

// ClassRule is a rule of a class based context: classes of the glyphs after
// the first, and the nested lookups.
type ClassRule struct {
	Rest    []int
	Actions []SeqLookup
}

// Context2 writes a sequence context subtable, format 2.  sets[i] are the
// rules for first-glyph class i (nil = NULL offset); the number of sets is
// written as given, whatever the class definition says.
func Context2(cov []int, classDef []byte, sets [][]ClassRule) []byte {
	head := []int{2, Off(0), Off(1), len(sets)}
	kids := [][]byte{Coverage(cov...), classDef}
	for _, set := range sets {
		if set == nil {
			head = append(head, 0)
			continue
		}
		head = append(head, Off(len(kids)))
		sh := []int{len(set)}
		var sk [][]byte
		for j, r := range set {
			sh = append(sh, Off(j))
			w := &W{}
			w.U16(len(r.Rest)+1, len(r.Actions))
			w.U16(r.Rest...)
			w.U16(records(r.Actions)...)
			sk = append(sk, w.B)
		}
		kids = append(kids, Block{Head: sh, Kids: sk}.Bytes())
	}
	return Block{Head: head, Kids: kids}.Bytes()
}

// Context3 writes a sequence context subtable, format 3.
func Context3(covs [][]int, actions []SeqLookup) []byte {
	head := []int{3, len(covs), len(actions)}
	var kids [][]byte
	for i, c := range covs {
		head = append(head, Off(i))
		kids = append(kids, Coverage(c...))
	}
	return Block{Head: head, Tail: records(actions), Kids: kids}.Bytes()
}

// Chain3 writes a chained sequence context subtable, format 3.
func Chain3(back, in, ahead [][]int, actions []SeqLookup) []byte {
	head := []int{3}
	var kids [][]byte
	for _, grp := range [][][]int{back, in, ahead} {
		head = append(head, len(grp))
		for _, c := range grp {
			head = append(head, Off(len(kids)))
			kids = append(kids, Coverage(c...))
		}
	}
	head = append(head, len(actions))
	return Block{Head: head, Tail: records(actions), Kids: kids}.Bytes()
}

// Lookup writes a lookup table.  filterSet < 0: no MarkFilteringSet field.
func Lookup(lookupType, flags, filterSet int, subtables ...[]byte) []byte {
	head := []int{lookupType, flags, len(subtables)}
	for i := range subtables {
		head = append(head, Off(i))
	}
	if filterSet >= 0 {
		head = append(head, filterSet)
	}
	return Block{Head: head, Kids: subtables}.Bytes()
}

// Table writes a GSUB/GPOS table, version 1.0: one script DFLT with a default
// language system whose required feature 0 ("test") lists all lookups.
func Table(lookups ...[]byte) []byte {
	// script list
	sl := &W{}
	sl.U16(1)
	sl.Tag("DFLT")
	sl.U16(8)       // offset of the script table
	sl.U16(4, 0)    // defaultLangSysOffset, langSysCount
	sl.U16(0, 0, 0) // lookupOrderOffset, requiredFeatureIndex, featureIndexCount
	fl := &W{}
	fl.U16(1)
	fl.Tag("test")
	fl.U16(8) // offset of the feature table
	fl.U16(0, len(lookups))
	for i := range lookups {
		fl.U16(i)
	}
	lh := []int{len(lookups)}
	for i := range lookups {
		lh = append(lh, Off(i))
	}
	ll := Block{Head: lh, Kids: lookups}.Bytes()

	w := &W{}
	w.U16(1, 0, 10, 10+len(sl.B), 10+len(sl.B)+len(fl.B))
	w.B = append(w.B, sl.B...)
	w.B = append(w.B, fl.B...)
	w.B = append(w.B, ll...)
	return w.B
}

// Gdef writes a GDEF table, version 1.2, with a glyph class definition
// (format 1) and nSets mark glyph sets each containing the given marks.
func Gdef(startGlyph int, classes []int, nSets int, marks ...int) []byte {
	cd := ClassDef(startGlyph, classes...)
	w := &W{}
	w.U16(1, 2, 14, 0, 0, 0) // version 1.2, glyphClassDef at 14, no attach list, lig carets, mark attach classes
	msOff := 14 + len(cd)
	if nSets == 0 {
		msOff = 0
	}
	w.U16(msOff)
	w.B = append(w.B, cd...)
	if nSets > 0 {
		w.U16(1, nSets)
		cov := Coverage(marks...)
		base := 4 + 4*nSets
		for i := 0; i < nSets; i++ {
			off := base + i*len(cov)
			w.U16(off>>16, off&0xFFFF)
		}
		for i := 0; i < nSets; i++ {
			w.B = append(w.B, cov...)
		}
	}
	return w.B
}
