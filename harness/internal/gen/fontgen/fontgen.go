// Package fontgen generates complete *sfnt.Font values: TrueType (simple and
// composite glyphs), simple CFF and CID-keyed CFF, with character maps, glyph
// names, header fields and (optionally) layout tables.
//
// Fonts are drawn inside the "representable domain" of property C01: every
// number is within the range and precision of the file format, so that a
// write/read cycle is expected to reproduce the font exactly up to the
// documented normal-form rules (see props/c01.go).
package fontgen

import (
	"fmt"
	"math"
	"math/rand/v2"
	"time"

	"golang.org/x/text/language"
	"seehuhn.de/go/geom/matrix"
	"seehuhn.de/go/postscript/cid"
	"seehuhn.de/go/postscript/funit"
	"seehuhn.de/go/postscript/type1"
	"seehuhn.de/go/sfnt"
	"seehuhn.de/go/sfnt/cff"
	"seehuhn.de/go/sfnt/cmap"
	"seehuhn.de/go/sfnt/glyf"
	"seehuhn.de/go/sfnt/glyph"
	"seehuhn.de/go/sfnt/head"
	"seehuhn.de/go/sfnt/maxp"
	"seehuhn.de/go/sfnt/opentype/gtab"
	"seehuhn.de/go/sfnt/os2"

	"verif/harness/internal/ref/glyfref"
	"verif/harness/internal/ref/tabread"
)

// Opts selects what kind of font is drawn.
type Opts struct {
	Kind        string // "glyf", "cff", "cid", or "" for a random choice
	MinGlyphs   int
	MaxGlyphs   int    // 0 = 40
	CMap        string // "none", "4", "12", "both", "legacy", "mac" or "" random
	Layout      string // "none", "subset" (GSUB 1.1/4.1 + GPOS 2.1, no GDEF), "" = none
	NoNames     bool   // TrueType: Names == nil / CFF: names still needed (unique)
	Plain       bool   // header fields in normal form only (no rule-exercising values)
	IntCoords   bool   // CFF: integer coordinates only
	NoComposite bool
	FixedPitch  int // 0 random, 1 force proportional, 2 force fixed pitch
}

// Info describes what was generated (for coverage classes).
type Info struct {
	Kind    string
	NGlyphs int
	CMap    string
	Layout  string
	Classes []string
	// a ligature chain (GSUB 4.1): rules on ChainInputs produce glyphs which
	// are themselves components of further rules; ChainOutputs are the
	// intermediate and final ligature glyphs
	ChainInputs, ChainOutputs []glyph.ID
	CodeToGID                 map[rune]glyph.ID
}

var sampleWords = []string{"Test", "Alpha", "Sans", "Serif", "Mono", "Display", "Text", "Neue", "Bold", "Light", "Pro", "Grotesk", "Semi Bold", "Italic", "X", "Größe", "Ünïcode", "字体", "𝔘𝔫𝔦", "a-b", "(c)", "[x]", "100%", "A/B", "<tag>", "{q}"}

func word(r *rand.Rand) string { return sampleWords[r.IntN(len(sampleWords))] }

func text(r *rand.Rand) string {
	switch r.IntN(8) {
	case 0:
		return ""
	case 1:
		n := 1 + r.IntN(300)
		b := make([]rune, n)
		for i := range b {
			switch r.IntN(6) {
			case 0:
				b[i] = rune(0x20 + r.IntN(0x5f))
			case 1:
				b[i] = rune(0xa0 + r.IntN(0x2000))
			case 2:
				b[i] = rune(0x10000 + r.IntN(0x1000))
			default:
				b[i] = rune('a' + r.IntN(26))
			}
			if b[i] >= 0xd800 && b[i] < 0xe000 {
				b[i] = 'x'
			}
		}
		return string(b)
	default:
		s := word(r)
		for i := r.IntN(4); i > 0; i-- {
			s += " " + word(r)
		}
		return s
	}
}

// Font draws a font.
func Font(r *rand.Rand, o Opts) (*sfnt.Font, *Info) {
	info := &Info{}
	kind := o.Kind
	if kind == "" {
		kind = []string{"glyf", "glyf", "cff", "cid"}[r.IntN(4)]
	}
	info.Kind = kind
	maxG := o.MaxGlyphs
	if maxG == 0 {
		maxG = 40
	}
	minG := max(o.MinGlyphs, 1)
	n := minG + r.IntN(maxG-minG+1)
	switch r.IntN(12) {
	case 0:
		n = minG
	case 1:
		n = min(maxG, max(minG, 2))
	case 2:
		n = min(maxG, max(minG, 3))
	}
	info.NGlyphs = n

	f := &sfnt.Font{}
	upm := []uint16{1000, 2048, 1000, 2048, 1024, 4096, 16, 16384, 977, 1005}[r.IntN(10)]
	if o.Plain {
		upm = []uint16{1000, 2048}[r.IntN(2)]
	}
	f.UnitsPerEm = upm
	q := 1 / float64(upm)
	f.FontMatrix = matrix.Matrix{q, 0, 0, q, 0, 0}
	if !o.Plain && kind != "glyf" && r.IntN(10) == 0 {
		// CFF fonts carry their font matrix: oblique, anisotropic or shifted
		switch r.IntN(3) {
		case 0:
			f.FontMatrix = matrix.Matrix{q, 0, q * float64(1+r.IntN(400)) / 1000, q, 0, 0}
		case 1:
			f.FontMatrix = matrix.Matrix{q, 0, 0, q * float64(500+r.IntN(1000)) / 1000, 0, 0}
		default:
			f.FontMatrix = matrix.Matrix{q, 0, 0, q, float64(r.IntN(200)) / 1000, float64(r.IntN(200)) / 1000}
		}
		info.Classes = append(info.Classes, "cff:font-matrix-not-a-plain-scale")
	}

	// widths
	fixed := r.IntN(5) == 0
	switch o.FixedPitch {
	case 1:
		fixed = false
	case 2:
		fixed = true
	}
	fixedW := 100 + r.IntN(1000)
	widths := make([]int, n)
	for i := range widths {
		switch {
		case fixed:
			widths[i] = fixedW
			if r.IntN(10) == 0 {
				widths[i] = 0
			}
		default:
			switch r.IntN(10) {
			case 0:
				widths[i] = 0
			case 1:
				widths[i] = r.IntN(32768)
			case 2, 3:
				widths[i] = 500
			default:
				widths[i] = 200 + r.IntN(900)
			}
		}
	}
	if !fixed && n >= 2 && o.FixedPitch == 1 {
		widths[0], widths[n-1] = 400, 600
	}

	// character map: choose code points for glyphs
	cmKind := o.CMap
	if cmKind == "" {
		cmKind = []string{"none", "4", "4", "12", "both", "legacy", "4", "mac"}[r.IntN(8)]
	}
	info.CMap = cmKind
	codes := map[rune]glyph.ID{}
	var macData []byte
	if cmKind == "mac" {
		// the only subtable is (1,0): Mac Roman codes, format 0 or 6, written
		// from the specification; the runes are those of the Mac Roman table
		macCodes := map[int]glyph.ID{}
		for gid := 1; gid < n; gid++ {
			if r.IntN(6) == 0 {
				continue
			}
			code := 0x20 + r.IntN(0xE0)
			switch r.IntN(3) {
			case 0:
				code = 0x80 + r.IntN(0x80)
			case 1:
				// the letters the reader looks at itself, with the Mac Roman
				// codes of the fi and fl ligatures
				code = []int{'f', 'i', 'l', 0xDE, 0xDF, 'H', 'x', ' ', 'f', 'i'}[r.IntN(10)]
			}
			if _, used := macCodes[code]; !used && code != 0x7F {
				macCodes[code] = glyph.ID(gid)
				codes[tabread.MacRomanRune(byte(code))] = glyph.ID(gid)
			}
		}
		lo, hi := 256, -1
		for code := 0; code < 256; code++ {
			if _, ok := macCodes[code]; ok {
				lo, hi = min(lo, code), max(hi, code)
			}
		}
		if n <= 256 && r.IntN(2) == 0 || hi < 0 {
			info.Classes = append(info.Classes, "cmap:mac-format0")
			macData = append(macData, 0, 0, 1, 6, 0, 0)
			for code := 0; code < 256; code++ {
				macData = append(macData, byte(macCodes[code]))
			}
		} else {
			info.Classes = append(info.Classes, "cmap:mac-format6")
			cnt := hi - lo + 1
			l := 10 + 2*cnt
			macData = append(macData, 0, 6, byte(l>>8), byte(l), 0, 0, byte(lo>>8), byte(lo), byte(cnt>>8), byte(cnt))
			for code := lo; code <= hi; code++ {
				macData = append(macData, byte(macCodes[code]>>8), byte(macCodes[code]))
			}
		}
	} else if cmKind != "none" && n > 1 {
		pool := []rune{'H', 'x', 'A', 'B', 'f', 'i', 'l', ' ', 0xfb00, 0xfb01, 0xfb02, 0xfb03, 0xfb04}
		for gid := 1; gid < n; gid++ {
			if r.IntN(6) == 0 {
				continue
			}
			k := 1
			if r.IntN(8) == 0 {
				k = 2
			}
			for ; k > 0; k-- {
				var c rune
				switch r.IntN(6) {
				case 0:
					c = pool[r.IntN(len(pool))]
				case 1:
					c = rune(0x20 + r.IntN(0x5f))
				case 2:
					c = rune(r.IntN(0x10000))
				case 3:
					if cmKind == "12" || cmKind == "both" {
						c = rune(0x10000 + r.IntN(0x20000))
					} else {
						c = rune(0x100 + r.IntN(0x300))
					}
				default:
					c = rune(0x41 + gid%200)
				}
				if r.IntN(60) == 0 {
					c = 0 // U+0000 mapped (to a ".null" glyph), the first code of all
				}
				if !o.Plain && r.IntN(40) == 0 {
					// the ends of the code space
					if cmKind == "12" || cmKind == "both" {
						c = []rune{0xFFFF, 0x10FFFF, 0xE0000, 0x2FFFF, 0x30000}[r.IntN(5)]
					} else {
						c = 0xFFFF
					}
				}
				if c >= 0xd800 && c < 0xe000 || c == 0xffff && o.Plain {
					continue
				}
				if (cmKind == "4" || cmKind == "legacy") && c > 0xffff {
					continue
				}
				if _, used := codes[c]; !used {
					codes[c] = glyph.ID(gid)
				}
			}
		}
	}
	info.CodeToGID = codes
	switch cmKind {
	case "none":
		f.CMapTable = nil
	case "mac":
		f.CMapTable = cmap.Table{{PlatformID: 1, EncodingID: 0}: macData}
	case "4", "legacy":
		m := cmap.Format4{}
		for c, g := range codes {
			m[uint16(c)] = g
		}
		enc := m.Encode(0)
		f.CMapTable = cmap.Table{{PlatformID: 3, EncodingID: 1}: enc}
		if r.IntN(2) == 0 {
			f.CMapTable[cmap.Key{PlatformID: 0, EncodingID: 3}] = enc
		}
		if cmKind == "legacy" {
			// extra keys that GetBest ignores
			f.CMapTable[cmap.Key{PlatformID: 0, EncodingID: 1}] = enc
			f.CMapTable[cmap.Key{PlatformID: 3, EncodingID: 0}] = cmap.Format4{0xf041: 1}.Encode(0)
			if r.IntN(2) == 0 && n > 1 {
				// a byte encoding table (format 0) under the symbol key
				sym := []byte{0, 0, 1, 6, 0, 0}
				sym = append(sym, make([]byte, 256)...)
				for i := 0; i < 4; i++ {
					sym[6+0x20+r.IntN(0xE0)] = byte(1 + r.IntN(min(n-1, 255)))
				}
				f.CMapTable[cmap.Key{PlatformID: 3, EncodingID: 0}] = sym
				info.Classes = append(info.Classes, "cmap:format0-under-symbol-key")
			}
			if r.IntN(2) == 0 {
				// the Macintosh subtable old TrueType fonts carry next to the
				// Unicode one: the Mac Roman part of the same mapping, format 6
				lo, hi := 256, -1
				mac := map[int]glyph.ID{}
				for code := 0x20; code < 256; code++ {
					if g, ok := codes[tabread.MacRomanRune(byte(code))]; ok {
						mac[code] = g
						lo, hi = min(lo, code), max(hi, code)
					}
				}
				if hi >= 0 {
					cnt := hi - lo + 1
					l := 10 + 2*cnt
					d := []byte{0, 6, byte(l >> 8), byte(l), 0, 0, byte(lo >> 8), byte(lo), byte(cnt >> 8), byte(cnt)}
					for code := lo; code <= hi; code++ {
						d = append(d, byte(mac[code]>>8), byte(mac[code]))
					}
					f.CMapTable[cmap.Key{PlatformID: 1, EncodingID: 0}] = d
					info.Classes = append(info.Classes, "cmap:mac-next-to-unicode")
				}
			}
		}
	case "12", "both":
		m := cmap.Format12{}
		for c, g := range codes {
			m[uint32(c)] = g
		}
		enc := m.Encode(0)
		f.CMapTable = cmap.Table{{PlatformID: 3, EncodingID: 10}: enc}
		if r.IntN(2) == 0 {
			f.CMapTable[cmap.Key{PlatformID: 0, EncodingID: 4}] = enc
		}
		if cmKind == "both" {
			m4 := cmap.Format4{}
			for c, g := range codes {
				if c < 0x10000 {
					m4[uint16(c)] = g
				}
			}
			f.CMapTable[cmap.Key{PlatformID: 3, EncodingID: 1}] = m4.Encode(0)
			if r.IntN(2) == 0 {
				// the common layout (0,3)=BMP, (3,1)=same bytes, (3,10)=full:
				// a shared subtable followed, in key order, by a distinct one
				f.CMapTable[cmap.Key{PlatformID: 0, EncodingID: 3}] = m4.Encode(0)
			}
		}
	}

	// outlines
	switch kind {
	case "glyf":
		f.Outlines = glyfOutlines(r, o, n, widths, info)
	case "cff":
		f.Outlines = cffOutlines(r, o, n, widths, false, info)
	case "cid":
		f.Outlines = cffOutlines(r, o, n, widths, true, info)
	}

	headerFields(r, o, f, info)

	if o.Layout == "subset" && n >= 4 {
		subsetLayout(r, f, n, info)
	}
	info.Layout = o.Layout
	if info.Layout == "" {
		info.Layout = "none"
	}
	return f, info
}

func headerFields(r *rand.Rand, o Opts, f *sfnt.Font, info *Info) {
	f.FamilyName = word(r)
	if r.IntN(3) == 0 {
		f.FamilyName += " " + word(r)
	}
	f.Width = os2.Width(1 + r.IntN(9))
	if r.IntN(2) == 0 {
		f.Width = os2.WidthNormal
	}
	f.Weight = os2.Weight(100 * (1 + r.IntN(9)))
	switch r.IntN(4) {
	case 0:
		f.Weight = os2.WeightNormal
	case 1:
		f.Weight = os2.Weight(1 + r.IntN(1000))
	}
	// style flags: only combinations the OS/2 specification allows
	// (REGULAR excludes BOLD and ITALIC; OBLIQUE implies slanted)
	switch r.IntN(6) {
	case 0:
		f.IsRegular = true
	case 1:
		f.IsBold = true
	case 2:
		f.IsItalic = true
	case 3:
		f.IsBold, f.IsItalic = true, true
	case 4:
		f.IsItalic, f.IsOblique = true, true
	}
	if f.IsItalic {
		f.ItalicAngle = -float64(r.IntN(30*65536)) / 65536
		if r.IntN(4) == 0 {
			f.ItalicAngle = -12
		}
		if r.IntN(6) == 0 {
			f.ItalicAngle = 0
		}
	}
	if !o.Plain && r.IntN(10) == 0 {
		// off-grid angle: the normal form rounds to 16.16
		f.ItalicAngle = -10 * r.Float64()
		f.IsItalic = true
		f.IsRegular = false
		info.Classes = append(info.Classes, "rule:italic-angle-rounding")
	}
	switch r.IntN(4) {
	case 0:
		f.IsSerif = true
	case 1:
		f.IsScript = true
	}
	if !o.Plain && r.IntN(20) == 0 {
		f.IsSerif, f.IsScript = true, true
		info.Classes = append(info.Classes, "rule:serif-wins")
	}
	f.CodePageRange = os2.CodePageRange(r.Uint64())
	if r.IntN(2) == 0 {
		f.CodePageRange = 1 << os2.CP1252
	}
	f.Version = head.Version(r.Uint32N(20 << 16)).Round()
	if !o.Plain && r.IntN(10) == 0 {
		f.Version = head.Version(r.Uint32N(20 << 16))
		info.Classes = append(info.Classes, "rule:version-rounding")
	}
	t0 := time.Date(1904, 1, 1, 0, 0, 0, 0, time.UTC).Unix()
	span := int64(296 * 365 * 24 * 3600)
	f.CreationTime = time.Unix(t0+r.Int64N(span), 0)
	f.ModificationTime = time.Unix(t0+r.Int64N(span), 0)
	switch r.IntN(8) {
	case 0:
		f.CreationTime = time.Time{}
	case 1:
		f.ModificationTime = time.Time{}
	}
	f.Description = text(r)
	f.SampleText = text(r)
	f.Copyright = text(r)
	f.Trademark = text(r)
	f.License = text(r)
	f.LicenseURL = text(r)
	f.PermUse = os2.Permissions(r.IntN(4))
	f.Ascent = funit.Int16(r.IntN(3000))
	f.Descent = -funit.Int16(r.IntN(1500))
	f.LineGap = funit.Int16(r.IntN(600))
	f.CapHeight = funit.Int16(1 + r.IntN(1500))
	f.XHeight = funit.Int16(1 + r.IntN(1000))
	if !o.Plain && r.IntN(12) == 0 {
		f.Ascent, f.Descent, f.LineGap = 32767, -32768, -32768
		info.Classes = append(info.Classes, "extreme-vertical-metrics")
	}
	if r.IntN(8) == 0 {
		f.CapHeight = 0
		info.Classes = append(info.Classes, "rule:capheight-from-H")
	}
	if r.IntN(8) == 0 {
		f.XHeight = 0
		info.Classes = append(info.Classes, "rule:xheight-from-x")
	}
	if !o.Plain && r.IntN(16) == 0 {
		// heights that are not positive count as "not set"
		f.XHeight = -funit.Int16(1 + r.IntN(600))
		if r.IntN(2) == 0 {
			f.CapHeight = -funit.Int16(1 + r.IntN(600))
		}
		info.Classes = append(info.Classes, "rule:negative-height-unset")
	}
	f.UnderlinePosition = -funit.Float64(r.IntN(400))
	f.UnderlineThickness = funit.Float64(r.IntN(200))
	if !o.Plain && r.IntN(10) == 0 {
		f.UnderlinePosition = -funit.Float64(r.Float64() * 300)
		f.UnderlineThickness = funit.Float64(r.Float64() * 100)
		info.Classes = append(info.Classes, "rule:underline-rounding")
	}
	if !o.Plain && r.IntN(8) == 0 {
		// legal but unusual values: signs and magnitudes that real fonts
		// rarely have
		switch r.IntN(5) {
		case 0: // leaning to the left, or by more than 30 degrees
			f.ItalicAngle = float64(r.IntN(2*179*65536)-179*65536) / 65536
			f.IsItalic, f.IsRegular = true, false
			info.Classes = append(info.Classes, "unusual:italic-angle")
		case 1: // every sign pattern of the vertical metrics
			f.Ascent = funit.Int16(r.IntN(4001) - 2000)
			f.Descent = funit.Int16(r.IntN(4001) - 2000)
			f.LineGap = funit.Int16(r.IntN(2001) - 1000)
			info.Classes = append(info.Classes, "unusual:vertical-metrics-signs")
		case 2: // underline above the baseline, thick
			f.UnderlinePosition = funit.Float64(r.IntN(32768))
			f.UnderlineThickness = funit.Float64(r.IntN(32768))
			if r.IntN(2) == 0 {
				f.UnderlinePosition = -32768
			}
			info.Classes = append(info.Classes, "unusual:underline")
		case 3: // large version numbers
			f.Version = head.Version(uint32(20+r.IntN(65516))<<16 | uint32(r.IntN(65536))).Round()
			info.Classes = append(info.Classes, "unusual:version>=20")
		case 4: // weight and width classes at the ends of their ranges
			f.Weight = os2.Weight([]int{1, 1000, 949, 950, 51, 50}[r.IntN(6)])
			f.Width = os2.Width([]int{1, 9}[r.IntN(2)])
			info.Classes = append(info.Classes, "unusual:weight-width-ends")
		}
	}
}

// simpleGlyph draws a TrueType simple glyph with true bounds.
func simpleGlyph(r *rand.Rand) (*glyf.Glyph, *glyfref.Simple) {
	g := &glyfref.Simple{}
	nc := 1 + r.IntN(3)
	x, y := int16(r.IntN(400)-100), int16(r.IntN(400)-100)
	for i := 0; i < nc; i++ {
		np := 2 + r.IntN(7)
		c := make([]glyfref.Point, np)
		for j := range c {
			x += int16(r.IntN(601) - 300)
			y += int16(r.IntN(601) - 300)
			c[j] = glyfref.Point{X: x, Y: y, OnCurve: r.IntN(3) != 0}
		}
		g.Contours = append(g.Contours, c)
	}
	if r.IntN(4) == 0 {
		g.Instructions = make([]byte, 1+r.IntN(20))
		for i := range g.Instructions {
			g.Instructions[i] = byte(r.Uint32())
		}
	} else {
		g.Instructions = []byte{}
	}
	body := glyfref.Encode(g, nil, nil)
	llx, lly, urx, ury, _ := g.Bounds()
	return &glyf.Glyph{
		Rect16: funit.Rect16{LLx: funit.Int16(llx), LLy: funit.Int16(lly), URx: funit.Int16(urx), URy: funit.Int16(ury)},
		Data:   glyf.SimpleGlyph{NumContours: int16(nc), Encoded: body},
	}, g
}

var macNames = []string{".notdef", ".null", "nonmarkingreturn", "space", "exclam", "quotedbl", "numbersign", "dollar", "percent", "ampersand", "quotesingle", "parenleft", "parenright", "asterisk", "plus", "comma", "hyphen", "period", "slash", "zero", "one", "two", "three", "four", "five", "six", "seven", "eight", "nine", "colon", "semicolon", "less", "equal", "greater", "question", "at", "A", "B", "C", "D", "E", "F", "G", "H", "I", "J", "K", "L", "M", "N", "O", "P"}

func glyphNames(r *rand.Rand, n int) []string {
	names := make([]string, n)
	used := map[string]bool{}
	// the glyph order of the legacy core fonts: the standard Macintosh names
	// in their standard order, further names behind them (the post table can
	// say "the 258 standard names" in one word - for exactly 258 glyphs)
	std := 0
	if n >= 250 && r.IntN(3) == 0 || r.IntN(12) == 0 {
		std = min(n, 258)
		for i := 0; i < std; i++ {
			names[i] = MacNames[i]
			used[names[i]] = true
		}
	}
	for i := range names {
		if i < std {
			continue
		}
		var s string
		for {
			switch {
			case i == 0:
				s = ".notdef"
			case r.IntN(3) == 0 && i < len(macNames):
				s = macNames[i]
			case r.IntN(3) == 0:
				s = MacNames[1+r.IntN(257)] // any standard Macintosh name, at any position
			case r.IntN(4) == 0:
				s = fmt.Sprintf("uni%04X", 0x100+r.IntN(0xF000))
			case r.IntN(4) == 0:
				s = fmt.Sprintf("%c.alt%d", rune('a'+r.IntN(26)), r.IntN(100))
			default:
				s = fmt.Sprintf("glyph%05d", r.IntN(100000))
			}
			if !used[s] {
				break
			}
			if i == 0 {
				break
			}
		}
		used[s] = true
		names[i] = s
	}
	return names
}

func glyfOutlines(r *rand.Rand, o Opts, n int, widths []int, info *Info) *glyf.Outlines {
	out := &glyf.Outlines{}
	out.Glyphs = make(glyf.Glyphs, n)
	simple := []int{}
	boxes := make([]funit.Rect16, n)
	for i := 0; i < n; i++ {
		q := r.IntN(10)
		switch {
		case q == 0 && i > 0:
			// empty glyph
		case q <= 2 && len(simple) > 0 && !o.NoComposite:
			// composite over earlier glyphs (DAG), XY offsets only
			nc := 1 + r.IntN(3)
			var comps []glyf.GlyphComponent
			var box funit.Rect16
			first := true
			for j := 0; j < nc; j++ {
				tgt := r.IntN(i)
				emptyComp := false
				if out.Glyphs[tgt] == nil {
					if tgt > 0 && j > 0 && r.IntN(3) == 0 {
						// a component without outline (e.g. a space glyph)
						emptyComp = true
						info.Classes = append(info.Classes, "glyf:empty-component")
					} else {
						tgt = simple[r.IntN(len(simple))]
					}
				}
				dx, dy := int16(r.IntN(401)-200), int16(r.IntN(401)-200)
				flags := glyf.FlagArgsAreXYValues
				var data []byte
				if r.IntN(2) == 0 || dx < -128 || dx > 127 || dy < -128 || dy > 127 {
					flags |= glyf.FlagArg1And2AreWords
					data = []byte{byte(dx >> 8), byte(dx), byte(dy >> 8), byte(dy)}
				} else {
					data = []byte{byte(dx), byte(dy)}
				}
				if r.IntN(4) == 0 {
					flags |= glyf.FlagRoundXYToGrid
				}
				if j < nc-1 {
					flags |= glyf.FlagMoreComponents
				}
				comps = append(comps, glyf.GlyphComponent{Flags: flags, GlyphIndex: glyph.ID(tgt), Data: data})
				if emptyComp {
					continue
				}
				b := boxes[tgt]
				b.LLx += funit.Int16(dx)
				b.URx += funit.Int16(dx)
				b.LLy += funit.Int16(dy)
				b.URy += funit.Int16(dy)
				if first {
					box = b
					first = false
				} else {
					box.Extend(b)
				}
			}
			cg := glyf.CompositeGlyph{Components: comps}
			if r.IntN(4) == 0 {
				cg.Instructions = []byte{1, 2, 3}
				if r.IntN(2) == 0 {
					cg.Instructions = []byte{} // instruction field present, zero instructions
				}
				// the flag is looked for on every component record; real fonts
				// have it on the last one, some only on an earlier one
				at := len(comps) - 1
				if len(comps) > 1 && r.IntN(3) == 0 {
					at = r.IntN(len(comps) - 1)
					info.Classes = append(info.Classes, "glyf:instructions-flag-not-on-last-component")
				}
				cg.Components[at].Flags |= glyf.FlagWeHaveInstructions
			}
			out.Glyphs[i] = &glyf.Glyph{Rect16: box, Data: cg}
			boxes[i] = box
			info.Classes = append(info.Classes, "glyf:composite")
			if _, isComp := out.Glyphs[comps[0].GlyphIndex].Data.(glyf.CompositeGlyph); isComp {
				info.Classes = append(info.Classes, "glyf:nested-composite")
			}
		default:
			g, _ := simpleGlyph(r)
			out.Glyphs[i] = g
			boxes[i] = g.Rect16
			simple = append(simple, i)
		}
	}
	if !o.NoComposite && n > 3 && r.IntN(3) == 0 {
		// renumber the glyphs (glyph 0 stays): composites now also refer to
		// glyphs with higher ids than their own
		perm := r.Perm(n - 1)
		pi := func(i int) int {
			if i == 0 {
				return 0
			}
			return perm[i-1] + 1
		}
		glyphs := make(glyf.Glyphs, n)
		forward := false
		for i, g := range out.Glyphs {
			if g != nil {
				if cg, ok := g.Data.(glyf.CompositeGlyph); ok {
					for j := range cg.Components {
						cg.Components[j].GlyphIndex = glyph.ID(pi(int(cg.Components[j].GlyphIndex)))
						forward = forward || int(cg.Components[j].GlyphIndex) > pi(i)
					}
				}
			}
			glyphs[pi(i)] = g
		}
		out.Glyphs = glyphs
		if forward {
			info.Classes = append(info.Classes, "glyf:forward-component-reference")
		}
	}
	out.Widths = make([]funit.Int16, n)
	for i, w := range widths {
		out.Widths[i] = funit.Int16(w)
	}
	if !o.NoNames && r.IntN(3) != 0 {
		out.Names = glyphNames(r, n)
		info.Classes = append(info.Classes, "glyf:names")
	} else {
		info.Classes = append(info.Classes, "glyf:no-names")
	}
	out.Tables = map[string][]byte{}
	for _, t := range []string{"cvt ", "fpgm", "prep", "gasp"} {
		if r.IntN(3) == 0 {
			b := make([]byte, 2+2*r.IntN(20))
			if !o.Plain && r.IntN(4) == 0 {
				// odd lengths (padding inside the container) and one-byte tables
				b = make([]byte, 1+r.IntN(41))
				info.Classes = append(info.Classes, "glyf:aux-table-any-length")
			}
			for i := range b {
				b[i] = byte(r.Uint32())
			}
			out.Tables[t] = b
		}
	}
	out.Maxp = &maxp.TTFInfo{
		MaxPoints: uint16(r.IntN(500)), MaxContours: uint16(r.IntN(50)), MaxCompositePoints: uint16(r.IntN(500)),
		MaxCompositeContours: uint16(r.IntN(50)), MaxZones: uint16(1 + r.IntN(2)), MaxTwilightPoints: uint16(r.IntN(100)),
		MaxStorage: uint16(r.IntN(100)), MaxFunctionDefs: uint16(r.IntN(100)), MaxInstructionDefs: uint16(r.IntN(100)),
		MaxStackElements: uint16(r.IntN(1000)), MaxSizeOfInstructions: uint16(r.IntN(1000)),
		MaxComponentElements: uint16(r.IntN(10)), MaxComponentDepth: uint16(r.IntN(5)),
	}
	if !o.Plain && r.IntN(10) == 0 {
		ext := func() uint16 { return []uint16{0, 0xFFFF, 0x8000, 0x7FFF}[r.IntN(4)] }
		out.Maxp = &maxp.TTFInfo{MaxPoints: ext(), MaxContours: ext(), MaxCompositePoints: ext(), MaxCompositeContours: ext(),
			MaxZones: ext(), MaxTwilightPoints: ext(), MaxStorage: ext(), MaxFunctionDefs: ext(), MaxInstructionDefs: ext(),
			MaxStackElements: ext(), MaxSizeOfInstructions: ext(), MaxComponentElements: ext(), MaxComponentDepth: ext()}
		info.Classes = append(info.Classes, "glyf:maxp-extremes")
	}
	return out
}

func coord(r *rand.Rand, intOnly bool) float64 {
	v := float64(r.IntN(2001) - 500)
	if !intOnly && r.IntN(4) == 0 {
		v += float64(r.IntN(65536)) / 65536
	}
	return v
}

// CFFGlyph draws a CFF glyph on the 16.16 grid.
func CFFGlyph(r *rand.Rand, name string, width float64, intOnly bool) *cff.Glyph {
	g := cff.NewGlyph(name, width)
	if r.IntN(8) == 0 {
		return g // blank glyph
	}
	nsub := 1 + r.IntN(3)
	for s := 0; s < nsub; s++ {
		g.MoveTo(coord(r, intOnly), coord(r, intOnly))
		if r.IntN(5) == 0 {
			// a flex-like pair of curves: horizontal start, joint and (nearly) end
			x, y := g.Cmds[len(g.Cmds)-1].Args[0], g.Cmds[len(g.Cmds)-1].Args[1]
			d := func() float64 { return float64(10 + r.IntN(60)) }
			dy2 := float64(5 + r.IntN(30))
			endDy := []float64{0, 0, float64(r.IntN(41) - 20)}[r.IntN(3)]
			x1, x2, x3 := x+d(), x+2*d(), x+3*d()
			g.CurveTo(x1, y, x2, y+dy2, x3, y+dy2)
			x4, x5, x6 := x3+d(), x3+2*d(), x3+3*d()
			g.CurveTo(x4, y+dy2, x5, y, x6, y+endDy)
		}
		if r.IntN(12) == 0 {
			// runs of slanted lines (or curves) about as long as the operand
			// stack, followed by a segment of the other kind: the encoder has to
			// split the run at the stack limit of 48 operands
			x, y := g.Cmds[len(g.Cmds)-1].Args[0], g.Cmds[len(g.Cmds)-1].Args[1]
			if r.IntN(2) == 0 {
				for k := 18 + r.IntN(34); k > 0; k-- {
					x, y = x+float64(1+r.IntN(9)), y+float64(r.IntN(19)-9)
					if y == g.Cmds[len(g.Cmds)-1].Args[len(g.Cmds[len(g.Cmds)-1].Args)-1] {
						y++
					}
					g.LineTo(x, y)
				}
				g.CurveTo(x+5, y+9, x+11, y+13, x+20, y+4)
			} else {
				for k := 5 + r.IntN(12); k > 0; k-- {
					g.CurveTo(x+3, y+7, x+9, y+11, x+14, y+2)
					x, y = x+14, y+2
				}
				g.LineTo(x+7, y-13)
			}
		}
		for k := 1 + r.IntN(6); k > 0; k-- {
			if r.IntN(3) == 0 {
				g.CurveTo(coord(r, intOnly), coord(r, intOnly), coord(r, intOnly), coord(r, intOnly), coord(r, intOnly), coord(r, intOnly))
			} else {
				g.LineTo(coord(r, intOnly), coord(r, intOnly))
			}
		}
	}
	if r.IntN(4) == 0 {
		a := float64(r.IntN(200))
		g.HStem = []float64{a, a + float64(10+r.IntN(80))}
	}
	if r.IntN(4) == 0 {
		a := float64(r.IntN(200))
		g.VStem = []float64{a, a + float64(10+r.IntN(80))}
	}
	if r.IntN(8) == 0 {
		// several stems in both directions, replaced and activated by hint
		// and counter masks at the start and inside the path
		// now and then around the number of stems that fills the operand
		// stack of one stem operator (24 pairs, 23 next to a width), and up
		// to the 96 stems the format allows for one glyph
		many := r.IntN(5) == 0
		stems := func() []float64 {
			var out []float64
			a := float64(r.IntN(100) - 50)
			cnt := r.IntN(7)
			if many {
				cnt = []int{22, 23, 24, 25, 47, 48}[r.IntN(6)]
				many = false // the other direction stays small
			}
			for k := cnt; k > 0; k-- {
				w := float64(10 + r.IntN(80))
				out = append(out, a, a+w)
				a += w + float64(5+r.IntN(60))
			}
			return out
		}
		g.HStem, g.VStem = stems(), stems()
		if ns := (len(g.HStem) + len(g.VStem)) / 2; ns > 0 {
			nb := (ns + 7) / 8
			mask := func(op cff.GlyphOpType) cff.GlyphOp {
				args := make([]float64, nb)
				for i := range args {
					args[i] = float64(r.IntN(256))
				}
				return cff.GlyphOp{Op: op, Args: args}
			}
			var cmds []cff.GlyphOp
			if r.IntN(3) == 0 {
				cmds = append(cmds, mask(cff.OpCntrMask))
			}
			cmds = append(cmds, mask(cff.OpHintMask))
			for _, c := range g.Cmds {
				cmds = append(cmds, c)
				if r.IntN(5) == 0 {
					cmds = append(cmds, mask(cff.OpHintMask))
				}
			}
			g.Cmds = cmds
		}
	}
	return g
}

func privateDict(r *rand.Rand) *type1.PrivateDict {
	p := &type1.PrivateDict{BlueScale: 0.039625, BlueShift: 7, BlueFuzz: 1}
	if r.IntN(2) == 0 {
		base := -funit.Int16(r.IntN(30))
		p.BlueValues = []funit.Int16{base, 0, funit.Int16(400 + r.IntN(100)), funit.Int16(510 + r.IntN(20)), funit.Int16(680 + r.IntN(20)), funit.Int16(710 + r.IntN(10))}
	}
	if r.IntN(3) == 0 {
		p.OtherBlues = []funit.Int16{-funit.Int16(250 + r.IntN(20)), -funit.Int16(200 + r.IntN(20))}
	}
	if r.IntN(3) == 0 {
		p.BlueScale = float64(1+r.IntN(60)) / 1000
	}
	if r.IntN(3) == 0 {
		p.BlueShift = int32(r.IntN(20))
	}
	if r.IntN(3) == 0 {
		p.BlueFuzz = int32(r.IntN(5))
	}
	if r.IntN(2) == 0 {
		p.StdHW = float64(10 + r.IntN(200))
	}
	if r.IntN(2) == 0 {
		p.StdVW = float64(10+r.IntN(200)) + []float64{0, 0.5, 0.25}[r.IntN(3)]
	}
	p.ForceBold = r.IntN(5) == 0
	return p
}

func cffOutlines(r *rand.Rand, o Opts, n int, widths []int, cidKeyed bool, info *Info) *cff.Outlines {
	out := &cff.Outlines{}
	names := glyphNames(r, n)
	for i := 0; i < n; i++ {
		name := names[i]
		if cidKeyed {
			name = ""
		}
		out.Glyphs = append(out.Glyphs, CFFGlyph(r, name, float64(widths[i]), o.IntCoords))
	}
	if !cidKeyed {
		out.Private = []*type1.PrivateDict{privateDict(r)}
		out.FDSelect = func(glyph.ID) int { return 0 }
		switch r.IntN(3) {
		case 0:
			out.Encoding = cff.StandardEncoding(out.Glyphs)
			info.Classes = append(info.Classes, "cff:standard-encoding")
		default:
			// custom encoding: glyphs 1..k at distinct codes (contiguity rule)
			enc := make([]glyph.ID, 256)
			k := 0
			if n > 1 {
				k = 1 + r.IntN(min(n-1, 200))
			}
			perm := r.Perm(256)
			full := false
			if n > 256 && r.IntN(3) == 0 {
				// all codes (or all but one or two) in use
				k = 254 + r.IntN(3)
				full = true
				info.Classes = append(info.Classes, fmt.Sprintf("cff:encoding-%d-codes", k))
			}
			if r.IntN(2) == 0 || full {
				// runs of consecutive codes
				start := r.IntN(256 - k + 1)
				for i := range perm {
					perm[i] = (start + i) % 256
				}
				if full && r.IntN(2) == 0 {
					// 128 runs of two codes, in reversed block order: the two
					// formats of the encoding table are then about equally long
					for i := range perm {
						perm[i] = 2*(127-i/2) + i%2
					}
					info.Classes = append(info.Classes, "cff:encoding-128-runs")
				}
			}
			for g := 1; g <= k; g++ {
				enc[perm[g-1]] = glyph.ID(g)
			}
			if k > 0 && r.IntN(3) == 0 {
				// multiply encoded glyph (supplement)
				for _, c := range perm[k:] {
					if enc[c] == 0 {
						enc[c] = glyph.ID(1 + r.IntN(k))
						info.Classes = append(info.Classes, "cff:encoding-supplement")
						break
					}
				}
			}
			out.Encoding = enc
			info.Classes = append(info.Classes, "cff:custom-encoding")
		}
		return out
	}
	nfd := 1 + r.IntN(4)
	for i := 0; i < nfd; i++ {
		out.Private = append(out.Private, privateDict(r))
		m := matrix.Identity
		if r.IntN(3) == 0 {
			s := []float64{0.5, 2, 1.25}[r.IntN(3)]
			m = matrix.Matrix{s, 0, 0, s, 0, 0}
		}
		out.FontMatrices = append(out.FontMatrices, m)
	}
	sel := make([]int, n)
	mode := r.IntN(3)
	cur := 0
	for i := range sel {
		switch mode {
		case 0:
			sel[i] = 0
		case 1:
			if r.IntN(6) == 0 {
				cur = r.IntN(nfd)
			}
			sel[i] = cur
		default:
			sel[i] = r.IntN(nfd)
		}
	}
	out.FDSelect = func(g glyph.ID) int { return sel[g] }
	out.ROS = &cid.SystemInfo{Registry: "Adobe", Ordering: []string{"Identity", "Japan1", "Test"}[r.IntN(3)], Supplement: int32(r.IntN(8))}
	out.GIDToCID = make([]cid.CID, n)
	next := cid.CID(0)
	for i := 1; i < n; i++ {
		// CIDs are 16-bit values in the charset: leave room for the rest
		if room := 65535 - int(next) - (n - i); r.IntN(4) == 0 && room > 0 {
			next += cid.CID(1 + r.IntN(min(50, room)))
		} else {
			next++
		}
		out.GIDToCID[i] = next
	}
	info.Classes = append(info.Classes, fmt.Sprintf("cid:fds=%d", nfd))
	return out
}

// subsetLayout adds the layout data the subsetter declares supported:
// GSUB 1.1 and 4.1, GPOS 2.1, no GDEF.
func subsetLayout(r *rand.Rand, f *sfnt.Font, n int, info *Info) {
	und := language.MustParse("und-Zzzz-x-dflt") // canonical form, as the reader returns it
	gid := func() glyph.ID { return glyph.ID(1 + r.IntN(n-1)) }
	// GSUB
	gsub := &gtab.Info{ScriptList: gtab.ScriptListInfo{und: {Required: 0xFFFF}}}
	if r.IntN(4) != 0 {
		lig := gtab.Gsub4_1{}
		first := map[glyph.ID][]gtab.Ligature{}
		for k := 1 + r.IntN(4); k > 0; k-- {
			a := gid()
			l := gtab.Ligature{Out: gid()}
			for m := 1 + r.IntN(2); m > 0; m-- {
				l.In = append(l.In, gid())
			}
			dup := false
			for _, e := range first[a] {
				if fmt.Sprint(e.In) == fmt.Sprint(l.In) {
					dup = true
				}
			}
			if !dup {
				first[a] = append(first[a], l)
			}
		}
		if n >= 9 && r.IntN(3) == 0 {
			// a chain of ligatures over three or four levels, as conjunct
			// forms are built: a+b -> x, x+c -> y, x+y -> z (, z+a -> w)
			perm := r.Perm(n - 1)
			g := func(i int) glyph.ID { return glyph.ID(perm[i] + 1) }
			a, b, c, x, y, z, w := g(0), g(1), g(2), g(3), g(4), g(5), g(6)
			add := func(first0 glyph.ID, l gtab.Ligature) {
				for _, e := range first[first0] {
					if fmt.Sprint(e.In) == fmt.Sprint(l.In) {
						return
					}
				}
				first[first0] = append(first[first0], l)
			}
			add(a, gtab.Ligature{In: []glyph.ID{b}, Out: x})
			add(x, gtab.Ligature{In: []glyph.ID{c}, Out: y})
			add(x, gtab.Ligature{In: []glyph.ID{y}, Out: z})
			info.ChainInputs = []glyph.ID{a, b, c}
			info.ChainOutputs = []glyph.ID{x, y, z}
			if r.IntN(2) == 0 {
				add(z, gtab.Ligature{In: []glyph.ID{a}, Out: w})
				info.ChainOutputs = append(info.ChainOutputs, w)
			}
			info.Classes = append(info.Classes, "layout:gsub4.1-chain")
		}
		var keys []glyph.ID
		for a := range first {
			keys = append(keys, a)
		}
		sortGIDs(keys)
		lig.Cov = map[glyph.ID]int{}
		for i, a := range keys {
			lig.Cov[a] = i
			lig.Repl = append(lig.Repl, first[a])
		}
		gsub.LookupList = append(gsub.LookupList, &gtab.LookupTable{Meta: &gtab.LookupMetaInfo{LookupType: 4}, Subtables: []gtab.Subtable{&lig}})
		info.Classes = append(info.Classes, "layout:gsub4.1")
	}
	if r.IntN(2) == 0 {
		cov := map[glyph.ID]bool{}
		for k := 1 + r.IntN(3); k > 0; k-- {
			cov[gid()] = true
		}
		var maxG glyph.ID
		for g := range cov {
			maxG = max(maxG, g)
		}
		delta := glyph.ID(r.IntN(n - int(maxG)))
		var minG = glyph.ID(n)
		for g := range cov {
			minG = min(minG, g)
		}
		if r.IntN(2) == 0 && minG > 1 {
			delta = -glyph.ID(1 + r.IntN(int(minG)-1))
		}
		lt := &gtab.LookupTable{Meta: &gtab.LookupMetaInfo{LookupType: 1}, Subtables: []gtab.Subtable{&gtab.Gsub1_1{Cov: cov, Delta: delta}}}
		if r.IntN(3) == 0 {
			// a second subtable whose coverage overlaps the first one: for a
			// glyph covered by both, the first subtable decides
			cov2 := map[glyph.ID]bool{}
			var covKeys []glyph.ID
			for g := range cov {
				covKeys = append(covKeys, g)
			}
			sortGIDs(covKeys) // the PRNG must be consumed in a fixed order
			for _, g := range covKeys {
				if r.IntN(2) == 0 {
					cov2[g] = true
				}
			}
			cov2[gid()] = true
			var mx2, mn2 glyph.ID = 0, glyph.ID(n)
			for g := range cov2 {
				mx2, mn2 = max(mx2, g), min(mn2, g)
			}
			d2 := glyph.ID(r.IntN(n - int(mx2)))
			if d2 == delta && mn2 > 1 {
				d2 = -glyph.ID(1 + r.IntN(int(mn2)-1))
			}
			lt.Subtables = append(lt.Subtables, &gtab.Gsub1_1{Cov: cov2, Delta: d2})
			info.Classes = append(info.Classes, "layout:gsub1.1-overlapping-subtables")
		}
		gsub.LookupList = append(gsub.LookupList, lt)
		info.Classes = append(info.Classes, "layout:gsub1.1")
	}
	if len(gsub.LookupList) > 0 {
		if r.IntN(3) == 0 {
			// a one-component "ligature" (a -> x written as a ligature rule) in
			// a lookup of its own, possibly before the others
			a, x := gid(), gid()
			one := &gtab.LookupTable{Meta: &gtab.LookupMetaInfo{LookupType: 4}, Subtables: []gtab.Subtable{
				&gtab.Gsub4_1{Cov: map[glyph.ID]int{a: 0}, Repl: [][]gtab.Ligature{{{In: []glyph.ID{}, Out: x}}}}}}
			if r.IntN(2) == 0 {
				gsub.LookupList = append(gtab.LookupList{one}, gsub.LookupList...)
			} else {
				gsub.LookupList = append(gsub.LookupList, one)
			}
			info.Classes = append(info.Classes, "layout:gsub4.1-one-component")
		}
		if len(gsub.LookupList) > 1 && r.IntN(3) == 0 {
			// any order of the lookups (single substitutions before ligatures)
			r.Shuffle(len(gsub.LookupList), func(i, j int) {
				gsub.LookupList[i], gsub.LookupList[j] = gsub.LookupList[j], gsub.LookupList[i]
			})
			info.Classes = append(info.Classes, "layout:lookup-order-shuffled")
		}
		switch r.IntN(6) {
		case 0:
			for _, l := range gsub.LookupList {
				l.Meta.LookupFlags = gtab.RightToLeft // (no GDEF: the ignore flags could not act)
			}
		case 1:
			// a mark filtering set is named although the font has no GDEF table
			// (the flag and the two bytes of the index belong to the lookup)
			for _, l := range gsub.LookupList {
				l.Meta.LookupFlags = gtab.UseMarkFilteringSet
				l.Meta.MarkFilteringSet = uint16(r.IntN(3))
			}
			info.Classes = append(info.Classes, "layout:mark-filtering-set-without-gdef")
		}
		feat := &gtab.Feature{Tag: "liga"}
		for i := range gsub.LookupList {
			feat.Lookups = append(feat.Lookups, gtab.LookupIndex(i))
		}
		gsub.FeatureList = gtab.FeatureListInfo{feat}
		gsub.ScriptList[und].Optional = []gtab.FeatureIndex{0}
		if r.IntN(3) == 0 {
			// several features and scripts: a second default feature sharing
			// a lookup, a feature that is off by default, a required feature,
			// a lookup that no feature uses
			nl := len(gsub.LookupList)
			second := &gtab.Feature{Tag: []string{"calt", "ccmp", "clig"}[r.IntN(3)], Lookups: []gtab.LookupIndex{gtab.LookupIndex(r.IntN(nl))}}
			off := &gtab.Feature{Tag: "ss01", Lookups: []gtab.LookupIndex{gtab.LookupIndex(r.IntN(nl))}}
			if nl > 1 && r.IntN(2) == 0 {
				feat.Lookups = feat.Lookups[:nl-1] // the last lookup is used by ss01 only, or by nobody
			}
			gsub.FeatureList = gtab.FeatureListInfo{feat, second, off}
			gsub.ScriptList[und].Optional = []gtab.FeatureIndex{0, 1, 2}
			latn := &gtab.Features{Required: 0xFFFF, Optional: []gtab.FeatureIndex{0, 2}}
			if r.IntN(2) == 0 {
				latn.Required = 1
			}
			gsub.ScriptList[language.MustParse("und-Latn-x-latn")] = latn
			if r.IntN(2) == 0 {
				gsub.ScriptList[language.MustParse("de-Latn-x-latn-deu")] = &gtab.Features{Required: 0xFFFF, Optional: []gtab.FeatureIndex{1}}
			}
			info.Classes = append(info.Classes, "layout:several-features-and-scripts")
		}
		f.Gsub = gsub
	}
	// GPOS 2.1
	if r.IntN(4) != 0 {
		value := func() *gtab.GposValueRecord {
			v := &gtab.GposValueRecord{XAdvance: funit.Int16(r.IntN(201) - 100)}
			if r.IntN(4) == 0 {
				v.XPlacement = funit.Int16(r.IntN(41) - 20)
			}
			if r.IntN(6) == 0 {
				v.YPlacement = funit.Int16(r.IntN(41) - 20)
			}
			return v
		}
		var pairs []glyph.Pair
		kern := gtab.Gpos2_1{}
		for k := 1 + r.IntN(8); k > 0; k-- {
			p := glyph.Pair{Left: gid(), Right: gid()}
			if _, ok := kern[p]; !ok {
				pairs = append(pairs, p)
			}
			kern[p] = &gtab.PairAdjust{First: value()}
		}
		lt := &gtab.LookupTable{Meta: &gtab.LookupMetaInfo{LookupType: 2}, Subtables: []gtab.Subtable{kern}}
		ll := gtab.LookupList{lt}
		switch r.IntN(4) {
		case 0:
			// an earlier subtable with exceptions: pairs without any adjustment
			// (value formats 0/0) end the lookup for that pair, so that the
			// kerning of the later subtable does not apply to them
			exc := gtab.Gpos2_1{}
			for i, p := range pairs {
				if i == 0 || r.IntN(3) == 0 {
					exc[p] = &gtab.PairAdjust{}
				}
			}
			exc[glyph.Pair{Left: gid(), Right: gid()}] = &gtab.PairAdjust{}
			lt.Subtables = []gtab.Subtable{exc, kern}
			info.Classes = append(info.Classes, "layout:gpos2.1-exception-subtable")
		case 1:
			// a second lookup whose adjustments add to those of the first, with
			// a value record for the second glyph as well
			more := gtab.Gpos2_1{}
			for i, p := range pairs {
				if i == 0 || r.IntN(2) == 0 {
					more[p] = &gtab.PairAdjust{First: value(), Second: value()}
				}
			}
			more[glyph.Pair{Left: gid(), Right: gid()}] = &gtab.PairAdjust{First: value(), Second: value()}
			ll = append(ll, &gtab.LookupTable{Meta: &gtab.LookupMetaInfo{LookupType: 2}, Subtables: []gtab.Subtable{more}})
			info.Classes = append(info.Classes, "layout:gpos2.1-two-lookups")
		}
		feat := &gtab.Feature{Tag: "kern"}
		for i := range ll {
			feat.Lookups = append(feat.Lookups, gtab.LookupIndex(i))
		}
		f.Gpos = &gtab.Info{
			ScriptList:  gtab.ScriptListInfo{und: {Required: 0xFFFF, Optional: []gtab.FeatureIndex{0}}},
			FeatureList: gtab.FeatureListInfo{feat},
			LookupList:  ll,
		}
		info.Classes = append(info.Classes, "layout:gpos2.1")
	}
}

func sortGIDs(a []glyph.ID) {
	for i := 1; i < len(a); i++ {
		for j := i; j > 0 && a[j] < a[j-1]; j-- {
			a[j], a[j-1] = a[j-1], a[j]
		}
	}
}

var _ = math.Pi
