package tabread

import (
	"os"
	"regexp"
	"strconv"
	"strings"
	"testing"

	"golang.org/x/text/encoding/charmap"
)

// The Mac OS Roman table agrees with golang.org/x/text.
func TestMacRomanAgainstXText(t *testing.T) {
	for c := 0; c < 256; c++ {
		if got, want := MacRomanRune(byte(c)), charmap.Macintosh.DecodeByte(byte(c)); got != want {
			t.Errorf("byte %#x: %U, x/text says %U", c, got, want)
		}
		if b, ok := MacRomanByte(MacRomanRune(byte(c))); !ok || b != byte(c) {
			t.Errorf("byte %#x does not invert", c)
		}
	}
}

// The standard glyph order agrees with the copy in x/image (only run when
// XIMAGE_DATA_GO points to golang.org/x/image/font/sfnt/data.go).
func TestMacGlyphNamesAgainstXImage(t *testing.T) {
	path := os.Getenv("XIMAGE_DATA_GO")
	if path == "" {
		t.Skip("XIMAGE_DATA_GO not set")
	}
	src, err := os.ReadFile(path)
	if err != nil {
		t.Fatal(err)
	}
	s := string(src)
	i := strings.Index(s, "const builtInPostNamesData = \"\" +")
	j := strings.Index(s, "var builtInPostNamesOffsets")
	if i < 0 || j < 0 {
		t.Fatal("layout of data.go not recognised")
	}
	var data strings.Builder
	for _, m := range regexp.MustCompile(`"((?:[^"\\]|\\.)*)"`).FindAllStringSubmatch(s[i+len("const builtInPostNamesData = \"\" +"):j], -1) {
		u, err := strconv.Unquote(`"` + m[1] + `"`)
		if err != nil {
			t.Fatal(err)
		}
		data.WriteString(u)
	}
	var offs []int
	for _, m := range regexp.MustCompile(`0x[0-9a-f]{4}`).FindAllString(s[j:], -1) {
		v, _ := strconv.ParseInt(m, 0, 32)
		offs = append(offs, int(v))
	}
	if len(offs) < 259 {
		t.Fatalf("%d offsets", len(offs))
	}
	d := data.String()
	for k := 0; k < 258; k++ {
		if got := d[offs[k]:offs[k+1]]; got != MacGlyphNames[k] {
			t.Errorf("name %d: x/image %q, here %q", k, got, MacGlyphNames[k])
		}
	}
}
