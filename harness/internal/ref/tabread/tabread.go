// Package tabread holds plain readers for the fixed-layout sfnt tables head,
// hhea, hmtx, maxp, OS/2, post, name and kern (format 0).
//
// The readers are written from the table chapters of the OpenType
// specification (and, for the standard glyph order of post format 1 and the
// Mac OS Roman character set, from Apple's TrueType reference manual); they do
// not share code or tables with the library under test.  Every reader returns
// the raw field values of the file – no normalisation, no interpretation of
// flag bits beyond what is offered by small helper methods – so that a
// monitor can compare "what the library says it wrote" with "what is in the
// bytes".  They are meant for well-formed tables produced by a writer under
// test: anything that does not fit yields an error rather than a partial
// result.
//
// Typical use:
//
//	h, err := tabread.ReadHead(headBytes)
//	hh, err := tabread.ReadHhea(hheaBytes)
//	m, err := tabread.ReadHmtx(hmtxBytes, numGlyphs, int(hh.NumberOfHMetrics))
//	// m.Advance[i], m.LSB[i] for every glyph, with the last advance repeated
package tabread

import (
	"encoding/binary"
	"fmt"
	"unicode/utf16"
)

var be = binary.BigEndian

func i16(b []byte) int16 { return int16(be.Uint16(b)) }

// ---------------------------------------------------------------------------
// head

// Head is the 54 byte "head" table.
type Head struct {
	MajorVersion, MinorVersion uint16
	FontRevision               uint32 // Fixed 16.16
	ChecksumAdjustment         uint32
	MagicNumber                uint32 // 0x5F0F3CF5
	Flags                      uint16
	UnitsPerEm                 uint16
	Created, Modified          int64 // seconds since 1904-01-01T00:00:00Z
	XMin, YMin, XMax, YMax     int16
	MacStyle                   uint16
	LowestRecPPEM              uint16
	FontDirectionHint          int16
	IndexToLocFormat           int16
	GlyphDataFormat            int16
}

// Epoch1904 is the Unix time of 1904-01-01T00:00:00Z, the origin of
// LONGDATETIME values: 66 years (17 of them leap years) before 1970.
const Epoch1904 = -(66*365 + 17) * 86400

// CreatedUnix returns the creation time as Unix seconds.
func (h *Head) CreatedUnix() int64 { return h.Created + Epoch1904 }

// ModifiedUnix returns the modification time as Unix seconds.
func (h *Head) ModifiedUnix() int64 { return h.Modified + Epoch1904 }

// ReadHead decodes a head table.
func ReadHead(b []byte) (*Head, error) {
	if len(b) != 54 {
		return nil, fmt.Errorf("tabread: head table of %d bytes, want 54", len(b))
	}
	h := &Head{
		MajorVersion: be.Uint16(b), MinorVersion: be.Uint16(b[2:]),
		FontRevision:       be.Uint32(b[4:]),
		ChecksumAdjustment: be.Uint32(b[8:]),
		MagicNumber:        be.Uint32(b[12:]),
		Flags:              be.Uint16(b[16:]),
		UnitsPerEm:         be.Uint16(b[18:]),
		Created:            int64(be.Uint64(b[20:])),
		Modified:           int64(be.Uint64(b[28:])),
		XMin:               i16(b[36:]), YMin: i16(b[38:]), XMax: i16(b[40:]), YMax: i16(b[42:]),
		MacStyle:          be.Uint16(b[44:]),
		LowestRecPPEM:     be.Uint16(b[46:]),
		FontDirectionHint: i16(b[48:]),
		IndexToLocFormat:  i16(b[50:]),
		GlyphDataFormat:   i16(b[52:]),
	}
	if h.MagicNumber != 0x5F0F3CF5 {
		return h, fmt.Errorf("tabread: head magic number %#x", h.MagicNumber)
	}
	return h, nil
}

// ---------------------------------------------------------------------------
// hhea / hmtx

// Hhea is the 36 byte "hhea" table.
type Hhea struct {
	MajorVersion, MinorVersion uint16
	Ascender, Descender        int16
	LineGap                    int16
	AdvanceWidthMax            uint16
	MinLeftSideBearing         int16
	MinRightSideBearing        int16
	XMaxExtent                 int16
	CaretSlopeRise             int16
	CaretSlopeRun              int16
	CaretOffset                int16
	Reserved                   [4]int16
	MetricDataFormat           int16
	NumberOfHMetrics           uint16
}

// ReadHhea decodes an hhea table.
func ReadHhea(b []byte) (*Hhea, error) {
	if len(b) != 36 {
		return nil, fmt.Errorf("tabread: hhea table of %d bytes, want 36", len(b))
	}
	h := &Hhea{
		MajorVersion: be.Uint16(b), MinorVersion: be.Uint16(b[2:]),
		Ascender: i16(b[4:]), Descender: i16(b[6:]), LineGap: i16(b[8:]),
		AdvanceWidthMax:    be.Uint16(b[10:]),
		MinLeftSideBearing: i16(b[12:]), MinRightSideBearing: i16(b[14:]),
		XMaxExtent:     i16(b[16:]),
		CaretSlopeRise: i16(b[18:]), CaretSlopeRun: i16(b[20:]), CaretOffset: i16(b[22:]),
		Reserved:         [4]int16{i16(b[24:]), i16(b[26:]), i16(b[28:]), i16(b[30:])},
		MetricDataFormat: i16(b[32:]),
		NumberOfHMetrics: be.Uint16(b[34:]),
	}
	return h, nil
}

// Hmtx is the "hmtx" table expanded to one advance and one left side bearing
// per glyph.
type Hmtx struct {
	Advance []uint16
	LSB     []int16
}

// ReadHmtx decodes an hmtx table for numGlyphs glyphs of which the first
// numberOfHMetrics have a full record; the remaining glyphs have the advance
// of the last full record and only a side bearing in the file.  The length
// of the table must match exactly.
func ReadHmtx(b []byte, numGlyphs, numberOfHMetrics int) (*Hmtx, error) {
	if numberOfHMetrics > numGlyphs || numberOfHMetrics < 0 {
		return nil, fmt.Errorf("tabread: numberOfHMetrics %d with %d glyphs", numberOfHMetrics, numGlyphs)
	}
	if numberOfHMetrics == 0 && numGlyphs > 0 {
		return nil, fmt.Errorf("tabread: numberOfHMetrics is 0")
	}
	want := 4*numberOfHMetrics + 2*(numGlyphs-numberOfHMetrics)
	if len(b) != want {
		return nil, fmt.Errorf("tabread: hmtx table of %d bytes, want %d", len(b), want)
	}
	m := &Hmtx{Advance: make([]uint16, numGlyphs), LSB: make([]int16, numGlyphs)}
	for i := 0; i < numGlyphs; i++ {
		if i < numberOfHMetrics {
			m.Advance[i] = be.Uint16(b[4*i:])
			m.LSB[i] = i16(b[4*i+2:])
		} else {
			m.Advance[i] = m.Advance[numberOfHMetrics-1]
			m.LSB[i] = i16(b[4*numberOfHMetrics+2*(i-numberOfHMetrics):])
		}
	}
	return m, nil
}

// HmtxGlyphs returns the number of glyphs an hmtx table of the given length
// describes when it has numberOfHMetrics full records (-1 if impossible).
func HmtxGlyphs(length, numberOfHMetrics int) int {
	rest := length - 4*numberOfHMetrics
	if rest < 0 || rest%2 != 0 {
		return -1
	}
	return numberOfHMetrics + rest/2
}

// ---------------------------------------------------------------------------
// maxp

// Maxp is the "maxp" table; version 0.5 (6 bytes) has only NumGlyphs.
type Maxp struct {
	Version   uint32 // 0x00005000 or 0x00010000
	NumGlyphs uint16
	// version 1.0 only, in file order: maxPoints, maxContours,
	// maxCompositePoints, maxCompositeContours, maxZones, maxTwilightPoints,
	// maxStorage, maxFunctionDefs, maxInstructionDefs, maxStackElements,
	// maxSizeOfInstructions, maxComponentElements, maxComponentDepth
	V1 [13]uint16
}

// ReadMaxp decodes a maxp table.
func ReadMaxp(b []byte) (*Maxp, error) {
	if len(b) < 6 {
		return nil, fmt.Errorf("tabread: maxp table of %d bytes", len(b))
	}
	m := &Maxp{Version: be.Uint32(b), NumGlyphs: be.Uint16(b[4:])}
	switch m.Version {
	case 0x00005000:
		if len(b) != 6 {
			return nil, fmt.Errorf("tabread: maxp 0.5 table of %d bytes, want 6", len(b))
		}
	case 0x00010000:
		if len(b) != 32 {
			return nil, fmt.Errorf("tabread: maxp 1.0 table of %d bytes, want 32", len(b))
		}
		for i := range m.V1 {
			m.V1[i] = be.Uint16(b[6+2*i:])
		}
	default:
		return nil, fmt.Errorf("tabread: maxp version %#x", m.Version)
	}
	return m, nil
}

// ---------------------------------------------------------------------------
// OS/2

// OS2 is the "OS/2" table, versions 0 to 5.  Fields that the version of the
// file does not have are zero; Have* say which groups are present.
type OS2 struct {
	Version             uint16
	XAvgCharWidth       int16
	WeightClass         uint16
	WidthClass          uint16
	FsType              uint16
	YSubscriptXSize     int16
	YSubscriptYSize     int16
	YSubscriptXOffset   int16
	YSubscriptYOffset   int16
	YSuperscriptXSize   int16
	YSuperscriptYSize   int16
	YSuperscriptXOffset int16
	YSuperscriptYOffset int16
	YStrikeoutSize      int16
	YStrikeoutPosition  int16
	FamilyClass         int16
	Panose              [10]byte
	UnicodeRange        [4]uint32 // ulUnicodeRange1 … 4 (bits 0–31, 32–63, 64–95, 96–127)
	VendID              [4]byte
	FsSelection         uint16
	FirstCharIndex      uint16
	LastCharIndex       uint16

	HaveTypo      bool // 78 byte form and later
	TypoAscender  int16
	TypoDescender int16
	TypoLineGap   int16
	WinAscent     uint16
	WinDescent    uint16

	HaveCodePages  bool      // version >= 1
	CodePageRange  [2]uint32 // ulCodePageRange1 (bits 0–31), ulCodePageRange2 (bits 32–63)
	HaveHeights    bool      // version >= 2
	XHeight        int16
	CapHeight      int16
	DefaultChar    uint16
	BreakChar      uint16
	MaxContext     uint16
	HaveOptical    bool // version 5
	LowerPointSize uint16
	UpperPointSize uint16
}

// CodePageBits returns the 64 code page bits as one word (bit n = code page
// bit n of the specification).
func (o *OS2) CodePageBits() uint64 {
	return uint64(o.CodePageRange[1])<<32 | uint64(o.CodePageRange[0])
}

// ReadOS2 decodes an OS/2 table.  The length must be the one the
// specification gives for the version (68 bytes are accepted for version 0,
// the original Apple form).
func ReadOS2(b []byte) (*OS2, error) {
	if len(b) < 68 {
		return nil, fmt.Errorf("tabread: OS/2 table of %d bytes", len(b))
	}
	o := &OS2{
		Version:       be.Uint16(b),
		XAvgCharWidth: i16(b[2:]),
		WeightClass:   be.Uint16(b[4:]),
		WidthClass:    be.Uint16(b[6:]),
		FsType:        be.Uint16(b[8:]),

		YSubscriptXSize: i16(b[10:]), YSubscriptYSize: i16(b[12:]),
		YSubscriptXOffset: i16(b[14:]), YSubscriptYOffset: i16(b[16:]),
		YSuperscriptXSize: i16(b[18:]), YSuperscriptYSize: i16(b[20:]),
		YSuperscriptXOffset: i16(b[22:]), YSuperscriptYOffset: i16(b[24:]),
		YStrikeoutSize: i16(b[26:]), YStrikeoutPosition: i16(b[28:]),
		FamilyClass: i16(b[30:]),

		UnicodeRange:   [4]uint32{be.Uint32(b[42:]), be.Uint32(b[46:]), be.Uint32(b[50:]), be.Uint32(b[54:])},
		FsSelection:    be.Uint16(b[62:]),
		FirstCharIndex: be.Uint16(b[64:]),
		LastCharIndex:  be.Uint16(b[66:]),
	}
	copy(o.Panose[:], b[32:42])
	copy(o.VendID[:], b[58:62])
	var want int
	switch o.Version {
	case 0:
		want = 78
		if len(b) == 68 {
			return o, nil
		}
	case 1:
		want = 86
	case 2, 3, 4:
		want = 96
	case 5:
		want = 100
	default:
		return nil, fmt.Errorf("tabread: OS/2 version %d", o.Version)
	}
	if len(b) != want {
		return nil, fmt.Errorf("tabread: OS/2 version %d table of %d bytes, want %d", o.Version, len(b), want)
	}
	o.HaveTypo = true
	o.TypoAscender, o.TypoDescender, o.TypoLineGap = i16(b[68:]), i16(b[70:]), i16(b[72:])
	o.WinAscent, o.WinDescent = be.Uint16(b[74:]), be.Uint16(b[76:])
	if o.Version >= 1 {
		o.HaveCodePages = true
		o.CodePageRange = [2]uint32{be.Uint32(b[78:]), be.Uint32(b[82:])}
	}
	if o.Version >= 2 {
		o.HaveHeights = true
		o.XHeight, o.CapHeight = i16(b[86:]), i16(b[88:])
		o.DefaultChar, o.BreakChar, o.MaxContext = be.Uint16(b[90:]), be.Uint16(b[92:]), be.Uint16(b[94:])
	}
	if o.Version >= 5 {
		o.HaveOptical = true
		o.LowerPointSize, o.UpperPointSize = be.Uint16(b[96:]), be.Uint16(b[98:])
	}
	return o, nil
}

// ---------------------------------------------------------------------------
// post

// Post is the "post" table.
type Post struct {
	Version            uint32 // 0x00010000, 0x00020000, 0x00025000, 0x00030000
	ItalicAngle        int32  // Fixed 16.16, degrees
	UnderlinePosition  int16
	UnderlineThickness int16
	IsFixedPitch       uint32
	MinMemType42       uint32
	MaxMemType42       uint32
	MinMemType1        uint32
	MaxMemType1        uint32

	// version 2.0
	NameIndex []uint16 // glyphNameIndex
	Strings   []string // the Pascal strings, in file order
	Trailing  int      // bytes behind the last string needed

	// Names holds one name per glyph for versions 1.0 (always the 258
	// standard names) and 2.0; nil for version 3.0.
	Names []string
}

// Angle returns the italic angle in degrees.
func (p *Post) Angle() float64 { return float64(p.ItalicAngle) / 65536 }

// ReadPost decodes a post table of version 1.0, 2.0 or 3.0.
func ReadPost(b []byte) (*Post, error) {
	if len(b) < 32 {
		return nil, fmt.Errorf("tabread: post table of %d bytes", len(b))
	}
	p := &Post{
		Version:            be.Uint32(b),
		ItalicAngle:        int32(be.Uint32(b[4:])),
		UnderlinePosition:  i16(b[8:]),
		UnderlineThickness: i16(b[10:]),
		IsFixedPitch:       be.Uint32(b[12:]),
		MinMemType42:       be.Uint32(b[16:]),
		MaxMemType42:       be.Uint32(b[20:]),
		MinMemType1:        be.Uint32(b[24:]),
		MaxMemType1:        be.Uint32(b[28:]),
	}
	switch p.Version {
	case 0x00010000:
		if len(b) != 32 {
			return nil, fmt.Errorf("tabread: post 1.0 table of %d bytes, want 32", len(b))
		}
		p.Names = append([]string(nil), MacGlyphNames[:]...)
	case 0x00030000:
		if len(b) != 32 {
			return nil, fmt.Errorf("tabread: post 3.0 table of %d bytes, want 32", len(b))
		}
	case 0x00020000:
		if len(b) < 34 {
			return nil, fmt.Errorf("tabread: post 2.0 header does not fit")
		}
		n := int(be.Uint16(b[32:]))
		if 34+2*n > len(b) {
			return nil, fmt.Errorf("tabread: post 2.0 glyphNameIndex[%d] does not fit", n)
		}
		maxCustom := -1
		p.NameIndex = make([]uint16, n)
		for i := range p.NameIndex {
			x := be.Uint16(b[34+2*i:])
			p.NameIndex[i] = x
			if int(x) >= 258 && int(x)-258 > maxCustom {
				maxCustom = int(x) - 258
			}
		}
		rest := b[34+2*n:]
		for len(rest) > 0 && len(p.Strings) <= maxCustom {
			l := int(rest[0])
			if 1+l > len(rest) {
				return nil, fmt.Errorf("tabread: post 2.0 string %d does not fit", len(p.Strings))
			}
			p.Strings = append(p.Strings, string(rest[1:1+l]))
			rest = rest[1+l:]
		}
		if len(p.Strings) <= maxCustom {
			return nil, fmt.Errorf("tabread: post 2.0 has %d strings, index %d needed", len(p.Strings), maxCustom)
		}
		p.Trailing = len(rest)
		p.Names = make([]string, n)
		for i, x := range p.NameIndex {
			if x < 258 {
				p.Names[i] = MacGlyphNames[x]
			} else {
				p.Names[i] = p.Strings[int(x)-258]
			}
		}
	default:
		return nil, fmt.Errorf("tabread: post version %#x", p.Version)
	}
	return p, nil
}

// ---------------------------------------------------------------------------
// name

// NameRecord is one record of the "name" table together with its string
// bytes.
type NameRecord struct {
	PlatformID, EncodingID, LanguageID, NameID uint16
	Length, Offset                             uint16
	Bytes                                      []byte
}

// Name is the "name" table.
type Name struct {
	Version       uint16
	StorageOffset uint16
	Records       []NameRecord
	LangTags      []string // version 1 language tags (UTF-16BE decoded)
	Problems      []string // deviations from the specification (record order, header)
}

// ReadName decodes a name table.  It fails when records or strings do not
// fit; a record order other than (platform, encoding, language, name id)
// ascending, or a storage offset that does not point directly behind the
// records, is listed in Problems.
func ReadName(b []byte) (*Name, error) {
	if len(b) < 6 {
		return nil, fmt.Errorf("tabread: name table of %d bytes", len(b))
	}
	t := &Name{Version: be.Uint16(b), StorageOffset: be.Uint16(b[4:])}
	if t.Version > 1 {
		return nil, fmt.Errorf("tabread: name version %d", t.Version)
	}
	n := int(be.Uint16(b[2:]))
	end := 6 + 12*n
	if end > len(b) {
		return nil, fmt.Errorf("tabread: %d name records do not fit", n)
	}
	storage := int(t.StorageOffset)
	if storage > len(b) {
		return nil, fmt.Errorf("tabread: name storage offset %d outside the table", storage)
	}
	str := func(offs, length int, what string) ([]byte, error) {
		if storage+offs+length > len(b) {
			return nil, fmt.Errorf("tabread: %s [%d,%d) leaves the string storage", what, offs, offs+length)
		}
		return b[storage+offs : storage+offs+length], nil
	}
	for i := 0; i < n; i++ {
		p := b[6+12*i:]
		r := NameRecord{
			PlatformID: be.Uint16(p), EncodingID: be.Uint16(p[2:]),
			LanguageID: be.Uint16(p[4:]), NameID: be.Uint16(p[6:]),
			Length: be.Uint16(p[8:]), Offset: be.Uint16(p[10:]),
		}
		var err error
		if r.Bytes, err = str(int(r.Offset), int(r.Length), fmt.Sprintf("name record %d", i)); err != nil {
			return nil, err
		}
		t.Records = append(t.Records, r)
	}
	if t.Version == 1 {
		if end+2 > len(b) {
			return nil, fmt.Errorf("tabread: langTagCount does not fit")
		}
		m := int(be.Uint16(b[end:]))
		if end+2+4*m > len(b) {
			return nil, fmt.Errorf("tabread: %d language tag records do not fit", m)
		}
		for i := 0; i < m; i++ {
			p := b[end+2+4*i:]
			s, err := str(int(be.Uint16(p[2:])), int(be.Uint16(p)), fmt.Sprintf("language tag %d", i))
			if err != nil {
				return nil, err
			}
			t.LangTags = append(t.LangTags, DecodeUTF16BE(s))
		}
		end += 2 + 4*m
	}
	if storage < end {
		return nil, fmt.Errorf("tabread: name storage offset %d inside the records (end %d)", storage, end)
	}
	if storage != end {
		t.Problems = append(t.Problems, fmt.Sprintf("storage offset %d, records end at %d", storage, end))
	}
	for i := 1; i < len(t.Records); i++ {
		a, c := t.Records[i-1], t.Records[i]
		ka := [4]uint16{a.PlatformID, a.EncodingID, a.LanguageID, a.NameID}
		kc := [4]uint16{c.PlatformID, c.EncodingID, c.LanguageID, c.NameID}
		less := false
		for j := 0; j < 4; j++ {
			if ka[j] != kc[j] {
				less = ka[j] < kc[j]
				break
			}
		}
		if !less {
			t.Problems = append(t.Problems, fmt.Sprintf("records %d and %d are not in ascending order", i-1, i))
			break
		}
	}
	return t, nil
}

// String decodes the record's bytes for the two encodings every reader
// understands: Macintosh/Roman (platform 1, encoding 0) and the UTF-16BE
// encodings of the Windows (3/1, 3/10) and Unicode (0/x) platforms.
func (r *NameRecord) String() (s string, ok bool) {
	switch {
	case r.PlatformID == 1 && r.EncodingID == 0:
		return DecodeMacRoman(r.Bytes), true
	case r.PlatformID == 0, r.PlatformID == 3 && (r.EncodingID == 1 || r.EncodingID == 10):
		if len(r.Bytes)%2 != 0 {
			return "", false
		}
		return DecodeUTF16BE(r.Bytes), true
	}
	return "", false
}

// DecodeUTF16BE decodes big-endian UTF-16 with the standard library (a
// trailing odd byte is ignored, unpaired surrogates become U+FFFD).
func DecodeUTF16BE(b []byte) string {
	u := make([]uint16, len(b)/2)
	for i := range u {
		u[i] = be.Uint16(b[2*i:])
	}
	return string(utf16.Decode(u))
}

// ---------------------------------------------------------------------------
// kern

// KernPair is one kerning pair of a format 0 subtable.
type KernPair struct {
	Left, Right uint16
	Value       int16
}

// KernSubtable is one subtable of an OpenType (version 0) "kern" table.
type KernSubtable struct {
	Version  uint16
	Length   uint16
	Coverage uint16 // bit 0 horizontal, 1 minimum, 2 cross-stream, 3 override; bits 8–15 format
	// format 0 only:
	NPairs, SearchRange, EntrySelector, RangeShift uint16
	Pairs                                          []KernPair
	Problems                                       []string // wrong search fields, unsorted pairs
}

// Format returns the subtable format (high byte of the coverage field).
func (k *KernSubtable) Format() int { return int(k.Coverage >> 8) }

// ReadKern decodes a version 0 kern table.  Subtables of a format other than
// 0 are returned with their header only.
func ReadKern(b []byte) ([]KernSubtable, error) {
	if len(b) < 4 {
		return nil, fmt.Errorf("tabread: kern table of %d bytes", len(b))
	}
	if v := be.Uint16(b); v != 0 {
		return nil, fmt.Errorf("tabread: kern version %d", v)
	}
	n := int(be.Uint16(b[2:]))
	pos := 4
	var out []KernSubtable
	for i := 0; i < n; i++ {
		if pos+6 > len(b) {
			return nil, fmt.Errorf("tabread: kern subtable %d header does not fit", i)
		}
		s := KernSubtable{Version: be.Uint16(b[pos:]), Length: be.Uint16(b[pos+2:]), Coverage: be.Uint16(b[pos+4:])}
		if int(s.Length) < 6 || pos+int(s.Length) > len(b) {
			return nil, fmt.Errorf("tabread: kern subtable %d length %d", i, s.Length)
		}
		body := b[pos+6 : pos+int(s.Length)]
		if s.Format() == 0 {
			if len(body) < 8 {
				return nil, fmt.Errorf("tabread: kern subtable %d format 0 header does not fit", i)
			}
			s.NPairs, s.SearchRange = be.Uint16(body), be.Uint16(body[2:])
			s.EntrySelector, s.RangeShift = be.Uint16(body[4:]), be.Uint16(body[6:])
			if 8+6*int(s.NPairs) > len(body) {
				return nil, fmt.Errorf("tabread: kern subtable %d: %d pairs do not fit", i, s.NPairs)
			}
			for j := 0; j < int(s.NPairs); j++ {
				p := body[8+6*j:]
				s.Pairs = append(s.Pairs, KernPair{be.Uint16(p), be.Uint16(p[2:]), i16(p[4:])})
				if j > 0 {
					a, c := s.Pairs[j-1], s.Pairs[j]
					if uint32(a.Left)<<16|uint32(a.Right) >= uint32(c.Left)<<16|uint32(c.Right) && len(s.Problems) < 4 {
						s.Problems = append(s.Problems, fmt.Sprintf("pairs %d,%d not ascending", j-1, j))
					}
				}
			}
			if np := int(s.NPairs); np > 0 {
				// searchRange = 6 × largest power of two <= nPairs,
				// entrySelector = log2 of that power, rangeShift =
				// 6 × nPairs − searchRange
				e := 0
				for 2<<e <= np {
					e++
				}
				if int(s.SearchRange) != 6<<e || int(s.EntrySelector) != e || int(s.RangeShift) != 6*np-6<<e {
					s.Problems = append(s.Problems, fmt.Sprintf("search fields %d/%d/%d for %d pairs", s.SearchRange, s.EntrySelector, s.RangeShift, np))
				}
			}
		}
		out = append(out, s)
		pos += int(s.Length)
	}
	return out, nil
}
