package tabread

// MacGlyphNames is the standard Macintosh glyph ordering: the 258 glyph names
// that post format 1.0 implies and that glyphNameIndex values 0…257 of format
// 2.0 refer to.  Source: Apple TrueType reference manual, chapter "The 'post'
// table", figure "Standard Macintosh glyph ordering" (the OpenType post
// chapter refers to the same list).
var MacGlyphNames = [258]string{
	".notdef", ".null", "nonmarkingreturn", "space", "exclam", "quotedbl", "numbersign", "dollar", // 0
	"percent", "ampersand", "quotesingle", "parenleft", "parenright", "asterisk", "plus", "comma", // 8
	"hyphen", "period", "slash", "zero", "one", "two", "three", "four", // 16
	"five", "six", "seven", "eight", "nine", "colon", "semicolon", "less", // 24
	"equal", "greater", "question", "at", "A", "B", "C", "D", // 32
	"E", "F", "G", "H", "I", "J", "K", "L", // 40
	"M", "N", "O", "P", "Q", "R", "S", "T", // 48
	"U", "V", "W", "X", "Y", "Z", "bracketleft", "backslash", // 56
	"bracketright", "asciicircum", "underscore", "grave", "a", "b", "c", "d", // 64
	"e", "f", "g", "h", "i", "j", "k", "l", // 72
	"m", "n", "o", "p", "q", "r", "s", "t", // 80
	"u", "v", "w", "x", "y", "z", "braceleft", "bar", // 88
	"braceright", "asciitilde", "Adieresis", "Aring", "Ccedilla", "Eacute", "Ntilde", "Odieresis", // 96
	"Udieresis", "aacute", "agrave", "acircumflex", "adieresis", "atilde", "aring", "ccedilla", // 104
	"eacute", "egrave", "ecircumflex", "edieresis", "iacute", "igrave", "icircumflex", "idieresis", // 112
	"ntilde", "oacute", "ograve", "ocircumflex", "odieresis", "otilde", "uacute", "ugrave", // 120
	"ucircumflex", "udieresis", "dagger", "degree", "cent", "sterling", "section", "bullet", // 128
	"paragraph", "germandbls", "registered", "copyright", "trademark", "acute", "dieresis", "notequal", // 136
	"AE", "Oslash", "infinity", "plusminus", "lessequal", "greaterequal", "yen", "mu", // 144
	"partialdiff", "summation", "product", "pi", "integral", "ordfeminine", "ordmasculine", "Omega", // 152
	"ae", "oslash", "questiondown", "exclamdown", "logicalnot", "radical", "florin", "approxequal", // 160
	"Delta", "guillemotleft", "guillemotright", "ellipsis", "nonbreakingspace", "Agrave", "Atilde", "Otilde", // 168
	"OE", "oe", "endash", "emdash", "quotedblleft", "quotedblright", "quoteleft", "quoteright", // 176
	"divide", "lozenge", "ydieresis", "Ydieresis", "fraction", "currency", "guilsinglleft", "guilsinglright", // 184
	"fi", "fl", "daggerdbl", "periodcentered", "quotesinglbase", "quotedblbase", "perthousand", "Acircumflex", // 192
	"Ecircumflex", "Aacute", "Edieresis", "Egrave", "Iacute", "Icircumflex", "Idieresis", "Igrave", // 200
	"Oacute", "Ocircumflex", "apple", "Ograve", "Uacute", "Ucircumflex", "Ugrave", "dotlessi", // 208
	"circumflex", "tilde", "macron", "breve", "dotaccent", "ring", "cedilla", "hungarumlaut", // 216
	"ogonek", "caron", "Lslash", "lslash", "Scaron", "scaron", "Zcaron", "zcaron", // 224
	"brokenbar", "Eth", "eth", "Yacute", "yacute", "Thorn", "thorn", "minus", // 232
	"multiply", "onesuperior", "twosuperior", "threesuperior", "onehalf", "onequarter", "threequarters", "franc", // 240
	"Gbreve", "gbreve", "Idotaccent", "Scedilla", "scedilla", "Cacute", "cacute", "Ccaron", // 248
	"ccaron", "dcroat", // 256
}

// MacRomanHigh maps the bytes 0x80…0xFF of the Mac OS Roman character set to
// Unicode (Apple's ROMAN.TXT, the variant in use since Mac OS 8.5 with the
// euro sign at 0xDB); bytes below 0x80 are ASCII.
var MacRomanHigh = [128]rune{
	0x00C4, 0x00C5, 0x00C7, 0x00C9, 0x00D1, 0x00D6, 0x00DC, 0x00E1, // 80
	0x00E0, 0x00E2, 0x00E4, 0x00E3, 0x00E5, 0x00E7, 0x00E9, 0x00E8, // 88
	0x00EA, 0x00EB, 0x00ED, 0x00EC, 0x00EE, 0x00EF, 0x00F1, 0x00F3, // 90
	0x00F2, 0x00F4, 0x00F6, 0x00F5, 0x00FA, 0x00F9, 0x00FB, 0x00FC, // 98
	0x2020, 0x00B0, 0x00A2, 0x00A3, 0x00A7, 0x2022, 0x00B6, 0x00DF, // A0
	0x00AE, 0x00A9, 0x2122, 0x00B4, 0x00A8, 0x2260, 0x00C6, 0x00D8, // A8
	0x221E, 0x00B1, 0x2264, 0x2265, 0x00A5, 0x00B5, 0x2202, 0x2211, // B0
	0x220F, 0x03C0, 0x222B, 0x00AA, 0x00BA, 0x03A9, 0x00E6, 0x00F8, // B8
	0x00BF, 0x00A1, 0x00AC, 0x221A, 0x0192, 0x2248, 0x2206, 0x00AB, // C0
	0x00BB, 0x2026, 0x00A0, 0x00C0, 0x00C3, 0x00D5, 0x0152, 0x0153, // C8
	0x2013, 0x2014, 0x201C, 0x201D, 0x2018, 0x2019, 0x00F7, 0x25CA, // D0
	0x00FF, 0x0178, 0x2044, 0x20AC, 0x2039, 0x203A, 0xFB01, 0xFB02, // D8
	0x2021, 0x00B7, 0x201A, 0x201E, 0x2030, 0x00C2, 0x00CA, 0x00C1, // E0
	0x00CB, 0x00C8, 0x00CD, 0x00CE, 0x00CF, 0x00CC, 0x00D3, 0x00D4, // E8
	0xF8FF, 0x00D2, 0x00DA, 0x00DB, 0x00D9, 0x0131, 0x02C6, 0x02DC, // F0
	0x00AF, 0x02D8, 0x02D9, 0x02DA, 0x00B8, 0x02DD, 0x02DB, 0x02C7, // F8
}

// MacRomanRune returns the Unicode character of a Mac OS Roman byte.
func MacRomanRune(c byte) rune {
	if c < 0x80 {
		return rune(c)
	}
	return MacRomanHigh[c-0x80]
}

// MacRomanByte returns the Mac OS Roman byte of a character, if it has one.
func MacRomanByte(r rune) (byte, bool) {
	if r >= 0 && r < 0x80 {
		return byte(r), true
	}
	for i, x := range MacRomanHigh {
		if x == r {
			return byte(0x80 + i), true
		}
	}
	return 0, false
}

// DecodeMacRoman decodes a Mac OS Roman byte string.
func DecodeMacRoman(b []byte) string {
	r := make([]rune, len(b))
	for i, c := range b {
		r[i] = MacRomanRune(c)
	}
	return string(r)
}
