// Package sfntwalk is an independent, specification-derived validator of the
// sfnt container (OpenType "otff" chapter).  It shares no code with
// seehuhn.de/go/sfnt/header.
package sfntwalk

import (
	"encoding/binary"
	"fmt"
	"sort"
)

type Table struct {
	Tag      string
	Checksum uint32
	Offset   uint32
	Length   uint32
	Data     []byte
}

type File struct {
	Scaler uint32
	Tables []Table // in directory order
}

func (f *File) Get(tag string) *Table {
	for i := range f.Tables {
		if f.Tables[i].Tag == tag {
			return &f.Tables[i]
		}
	}
	return nil
}

// Sum is the table checksum of the specification: big-endian uint32 sum of
// the data padded with zeros to a multiple of four.
func Sum(b []byte) uint32 {
	var s uint32
	for len(b) >= 4 {
		s += binary.BigEndian.Uint32(b)
		b = b[4:]
	}
	if len(b) > 0 {
		var last [4]byte
		copy(last[:], b)
		s += binary.BigEndian.Uint32(last[:])
	}
	return s
}

// Problem is one violated container rule.
type Problem struct {
	Rule string // short class
	Msg  string
}

func (p Problem) String() string { return p.Rule + ": " + p.Msg }

// Walk parses and validates data.  The File is returned as far as it could
// be parsed; problems lists every violated rule.
func Walk(data []byte) (*File, []Problem) {
	var probs []Problem
	add := func(rule, format string, a ...any) {
		probs = append(probs, Problem{rule, fmt.Sprintf(format, a...)})
	}
	if len(data) < 12 {
		add("short-file", "file has %d bytes", len(data))
		return nil, probs
	}
	f := &File{Scaler: binary.BigEndian.Uint32(data)}
	n := int(binary.BigEndian.Uint16(data[4:]))
	sr := int(binary.BigEndian.Uint16(data[6:]))
	es := int(binary.BigEndian.Uint16(data[8:]))
	rs := int(binary.BigEndian.Uint16(data[10:]))
	if len(data) < 12+16*n {
		add("directory-truncated", "numTables=%d needs %d bytes, file has %d", n, 12+16*n, len(data))
		return f, probs
	}
	if n > 0 {
		p2, lg := 1, 0
		for p2*2 <= n {
			p2 *= 2
			lg++
		}
		if sr != 16*p2 {
			add("searchRange", "searchRange=%d want %d (numTables=%d)", sr, 16*p2, n)
		}
		if es != lg {
			add("entrySelector", "entrySelector=%d want %d (numTables=%d)", es, lg, n)
		}
		if rs != 16*n-16*p2 {
			add("rangeShift", "rangeShift=%d want %d (numTables=%d)", rs, 16*n-16*p2, n)
		}
	}
	for i := 0; i < n; i++ {
		rec := data[12+16*i:]
		t := Table{
			Tag:      string(rec[:4]),
			Checksum: binary.BigEndian.Uint32(rec[4:]),
			Offset:   binary.BigEndian.Uint32(rec[8:]),
			Length:   binary.BigEndian.Uint32(rec[12:]),
		}
		f.Tables = append(f.Tables, t)
	}
	for i := 1; i < n; i++ {
		if !(f.Tables[i-1].Tag < f.Tables[i].Tag) {
			add("directory-order", "record %d %q is not after record %d %q", i, f.Tables[i].Tag, i-1, f.Tables[i-1].Tag)
		}
	}
	type span struct {
		a, b uint64
		tag  string
	}
	var spans []span
	for i := range f.Tables {
		t := &f.Tables[i]
		if t.Offset%4 != 0 {
			add("alignment", "table %q at offset %d", t.Tag, t.Offset)
		}
		if uint64(t.Offset) < uint64(12+16*n) {
			add("table-in-directory", "table %q at offset %d inside the %d-byte directory", t.Tag, t.Offset, 12+16*n)
			continue
		}
		end := uint64(t.Offset) + uint64(t.Length)
		if end > uint64(len(data)) {
			add("table-outside-file", "table %q [%d,%d) beyond file length %d", t.Tag, t.Offset, end, len(data))
			continue
		}
		t.Data = data[t.Offset:end]
		// bytes completing the last 4-byte word must be present and zero
		padEnd := (end + 3) &^ 3
		if padEnd > uint64(len(data)) {
			add("padding-missing", "table %q: file ends at %d inside the padding to %d", t.Tag, len(data), padEnd)
		} else {
			for q := end; q < padEnd; q++ {
				if data[q] != 0 {
					add("padding-nonzero", "table %q: padding byte at %d is %#x", t.Tag, q, data[q])
				}
			}
		}
		if t.Length > 0 {
			spans = append(spans, span{uint64(t.Offset), padEnd, t.Tag})
		}
	}
	sort.Slice(spans, func(i, j int) bool { return spans[i].a < spans[j].a })
	for i := 1; i < len(spans); i++ {
		if spans[i-1].b > spans[i].a {
			add("overlap", "tables %q [%d,%d) and %q [%d,…) overlap", spans[i-1].tag, spans[i-1].a, spans[i-1].b, spans[i].tag, spans[i].a)
		}
	}
	// checksums
	for i := range f.Tables {
		t := &f.Tables[i]
		if t.Data == nil && t.Length != 0 {
			continue
		}
		d := t.Data
		if t.Tag == "head" && len(d) >= 12 {
			c := append([]byte(nil), d...)
			c[8], c[9], c[10], c[11] = 0, 0, 0, 0
			d = c
		}
		if s := Sum(d); s != t.Checksum {
			add("table-checksum", "table %q: directory checksum %#08x, computed %#08x", t.Tag, t.Checksum, s)
		}
	}
	if h := f.Get("head"); h != nil && len(h.Data) >= 12 && len(data)%4 == 0 {
		if s := Sum(data); s != 0xB1B0AFBA {
			add("file-checksum", "whole-file checksum %#08x, want 0xB1B0AFBA", s)
		}
	} else if h != nil && len(h.Data) >= 12 {
		// file length not a multiple of four: sum with zero padding
		if s := Sum(data); s != 0xB1B0AFBA {
			add("file-checksum", "whole-file checksum %#08x, want 0xB1B0AFBA", s)
		}
	}
	return f, probs
}
