// Package glyfref is an independent TrueType simple-glyph encoder/decoder and
// composite-record reader/writer, written from the OpenType "glyf" chapter.
package glyfref

import (
	"encoding/binary"
	"errors"
	"math/rand/v2"
)

type Point struct {
	X, Y    int16
	OnCurve bool
}

type Simple struct {
	Contours     [][]Point
	Instructions []byte
}

const (
	fOn     = 0x01
	fXShort = 0x02
	fYShort = 0x04
	fRepeat = 0x08
	fXSame  = 0x10
	fYSame  = 0x20
	fOver   = 0x40
)

// Forms records which encoding forms an Encode call used.
type Forms map[string]int

// Encode encodes the body of a simple glyph (everything after the 10-byte
// header).  If rng is nil the most compact forms are chosen; otherwise every
// choice the format leaves open (short vs long delta, repeat vs literal
// flags, overlap bit) is drawn at random.
func Encode(g *Simple, rng *rand.Rand, forms Forms) []byte {
	var out []byte
	n := 0
	for _, c := range g.Contours {
		n += len(c)
		out = binary.BigEndian.AppendUint16(out, uint16(n-1))
	}
	out = binary.BigEndian.AppendUint16(out, uint16(len(g.Instructions)))
	out = append(out, g.Instructions...)

	flags := make([]byte, 0, n)
	var xs, ys []byte
	var px, py int16
	note := func(s string) {
		if forms != nil {
			forms[s]++
		}
	}
	coord := func(d int16, short, same byte, dst *[]byte, axis string) byte {
		var f byte
		switch {
		case d == 0 && (rng == nil || rng.IntN(4) != 0):
			f = same
			note(axis + "-same")
		case d >= -255 && d <= 255 && (rng == nil || rng.IntN(4) != 0):
			f = short
			if d >= 0 {
				f |= same
				*dst = append(*dst, byte(d))
				note(axis + "-short-pos")
			} else {
				*dst = append(*dst, byte(-d))
				note(axis + "-short-neg")
			}
		default:
			*dst = binary.BigEndian.AppendUint16(*dst, uint16(d))
			note(axis + "-long")
		}
		return f
	}
	first := true
	for _, c := range g.Contours {
		for _, p := range c {
			var f byte
			if p.OnCurve {
				f |= fOn
			}
			if first && rng != nil && rng.IntN(8) == 0 {
				f |= fOver
				note("overlap-bit")
			}
			first = false
			f |= coord(p.X-px, fXShort, fXSame, &xs, "x")
			f |= coord(p.Y-py, fYShort, fYSame, &ys, "y")
			px, py = p.X, p.Y
			flags = append(flags, f)
		}
	}
	// flag run-length coding
	for i := 0; i < len(flags); {
		j := i + 1
		for j < len(flags) && flags[j] == flags[i] && j-i < 256 {
			j++
		}
		run := j - i // 1..256
		useRepeat := run >= 3
		if rng != nil {
			useRepeat = rng.IntN(2) == 0
			if useRepeat && rng.IntN(4) == 0 {
				run = 1 + rng.IntN(run) // shorter run, possibly repeat count 0
			}
		}
		if useRepeat {
			out = append(out, flags[i]|fRepeat, byte(run-1))
			switch run - 1 {
			case 0:
				note("repeat-0")
			case 1:
				note("repeat-1")
			case 255:
				note("repeat-255")
			default:
				note("repeat-n")
			}
			i += run
		} else {
			out = append(out, flags[i])
			note("flag-literal")
			i++
		}
	}
	out = append(out, xs...)
	out = append(out, ys...)
	return out
}

var ErrInvalid = errors.New("glyfref: invalid simple glyph")

// Decode decodes the body of a simple glyph with the given contour count.
// It returns the number of bytes consumed, so callers can see the padding.
func Decode(numContours int, b []byte) (*Simple, int, error) {
	pos := 0
	need := func(k int) bool { return pos+k <= len(b) }
	ends := make([]int, numContours)
	for i := range ends {
		if !need(2) {
			return nil, 0, ErrInvalid
		}
		ends[i] = int(binary.BigEndian.Uint16(b[pos:]))
		pos += 2
	}
	nPts := 0
	if numContours > 0 {
		nPts = ends[numContours-1] + 1
	}
	for i := 1; i < numContours; i++ {
		if ends[i] < ends[i-1] {
			return nil, 0, ErrInvalid
		}
	}
	if !need(2) {
		return nil, 0, ErrInvalid
	}
	il := int(binary.BigEndian.Uint16(b[pos:]))
	pos += 2
	if !need(il) {
		return nil, 0, ErrInvalid
	}
	g := &Simple{Instructions: b[pos : pos+il]}
	pos += il
	flags := make([]byte, 0, nPts)
	for len(flags) < nPts {
		if !need(1) {
			return nil, 0, ErrInvalid
		}
		f := b[pos]
		pos++
		flags = append(flags, f)
		if f&fRepeat != 0 {
			if !need(1) {
				return nil, 0, ErrInvalid
			}
			cnt := int(b[pos])
			pos++
			for ; cnt > 0; cnt-- {
				if len(flags) >= nPts {
					return nil, 0, ErrInvalid
				}
				flags = append(flags, f)
			}
		}
	}
	axis := func(short, same byte) ([]int16, error) {
		vals := make([]int16, nPts)
		var v int16
		for i, f := range flags {
			switch {
			case f&short != 0:
				if !need(1) {
					return nil, ErrInvalid
				}
				d := int16(b[pos])
				pos++
				if f&same != 0 {
					v += d
				} else {
					v -= d
				}
			case f&same == 0:
				if !need(2) {
					return nil, ErrInvalid
				}
				v += int16(binary.BigEndian.Uint16(b[pos:]))
				pos += 2
			}
			vals[i] = v
		}
		return vals, nil
	}
	xs, err := axis(fXShort, fXSame)
	if err != nil {
		return nil, 0, err
	}
	ys, err := axis(fYShort, fYSame)
	if err != nil {
		return nil, 0, err
	}
	start := 0
	for _, e := range ends {
		c := make([]Point, 0, e+1-start)
		for j := start; j <= e; j++ {
			c = append(c, Point{xs[j], ys[j], flags[j]&fOn != 0})
		}
		g.Contours = append(g.Contours, c)
		start = e + 1
	}
	return g, pos, nil
}

// Bounds returns the bounding box of all points (the value a well-formed
// glyph header carries).
func (g *Simple) Bounds() (llx, lly, urx, ury int16, ok bool) {
	first := true
	for _, c := range g.Contours {
		for _, p := range c {
			if first {
				llx, urx, lly, ury = p.X, p.X, p.Y, p.Y
				first = false
				continue
			}
			llx = min(llx, p.X)
			urx = max(urx, p.X)
			lly = min(lly, p.Y)
			ury = max(ury, p.Y)
		}
	}
	return llx, lly, urx, ury, !first
}

// Component is one composite-glyph component record.
type Component struct {
	Flags uint16
	Gid   uint16
	Args  []byte // argument and transform bytes
}

// ArgLen is the number of argument+transform bytes the flags imply.
func ArgLen(flags uint16) int {
	n := 2
	if flags&0x0001 != 0 {
		n = 4
	}
	switch {
	case flags&0x0008 != 0:
		n += 2
	case flags&0x0040 != 0:
		n += 4
	case flags&0x0080 != 0:
		n += 8
	}
	return n
}

// EncodeComposite writes the body of a composite glyph.  instr == nil means
// "no instructions field".
func EncodeComposite(cs []Component, instr []byte) []byte {
	var out []byte
	for _, c := range cs {
		out = binary.BigEndian.AppendUint16(out, c.Flags)
		out = binary.BigEndian.AppendUint16(out, c.Gid)
		out = append(out, c.Args...)
	}
	if instr != nil {
		out = binary.BigEndian.AppendUint16(out, uint16(len(instr)))
		out = append(out, instr...)
	}
	return out
}
