// Package otlwalk is an independent structural walker for the bytes of
// OpenType "GSUB", "GPOS" and "GDEF" tables.  It is written from the OpenType
// specification (chapter 2 "common table formats", and the GSUB, GPOS and GDEF
// chapters), not from the go-sfnt sources.
//
// The walker starts at the table header, follows every offset, and records the
// byte range of every structure it interprets.  Afterwards it checks that
//
//   - every offset lands inside the table and every structure lies inside it;
//   - the extent of each structure is what its counts imply;
//   - the recorded ranges tile the table: no unreferenced gap, and no overlap
//     except that several references may share one identical structure;
//   - coverage tables are sorted, format-2 start indices count up from 0, and
//     coverage-indexed arrays have one entry per covered glyph;
//   - class definition ranges are sorted and disjoint;
//   - extension lookups (GSUB type 7, GPOS type 9) wrap one lookup type per
//     lookup, not the extension type itself, and their 32-bit offsets land on
//     a subtable that parses as that type;
//   - mark classes are below the mark class count, value formats use no
//     reserved bits, anchor formats are 1..3.
//
// Everything that is found wrong is reported as a Problem with an
// input-independent class string.  Device / VariationIndex tables, feature
// parameters and feature variations are not interpreted; their presence is
// listed in Report.Unsupported (and the tiling check is skipped, because
// uninterpreted bytes would look like gaps).
package otlwalk

import (
	"fmt"
	"math/bits"
	"sort"
)

// Range is a half-open byte range [Start,End) interpreted as Kind.
type Range struct {
	Start, End int
	Kind       string
}

// Problem is one structural defect.
type Problem struct {
	Class  string // input-independent class
	Detail string
}

func (p Problem) String() string { return p.Class + ": " + p.Detail }

// Sub describes one subtable of a lookup.
type Sub struct {
	Offset int // absolute offset of the real (unwrapped) subtable
	Format int
	Ext    bool // reached through an extension record
}

// Lookup describes one lookup table.
type Lookup struct {
	Offset           int
	RawType          int // lookup type in the lookup table (7 / 9 for extension lookups)
	Type             int // effective type
	Flags            uint16
	MarkFilteringSet uint16
	Subtables        []Sub
}

// LangSys is one language system; Lang == "" is the default language system.
type LangSys struct {
	Script, Lang string
	Required     uint16
	Features     []uint16
}

// Feature is one feature record.
type Feature struct {
	Tag     string
	Lookups []uint16
}

// Report is the result of a walk.
type Report struct {
	Len         int
	Ranges      []Range
	Problems    []Problem
	Classes     map[string]int // structural classes that were seen ("GSUB4.1", "cov2", "ext", …)
	Unsupported []string
	Lookups     []Lookup
	Scripts     []LangSys
	Features    []Feature
	NotSmallest []string // coverage / class definition tables with a smaller alternative format
	Shared      int      // structures reached through more than one reference
}

// OK reports whether no problem was found.
func (r *Report) OK() bool { return len(r.Problems) == 0 }

type abort struct{}

type walker struct {
	d    []byte
	rep  *Report
	gpos bool
}

func (w *walker) problem(class, format string, a ...any) {
	if len(w.rep.Problems) < 50 {
		w.rep.Problems = append(w.rep.Problems, Problem{Class: class, Detail: fmt.Sprintf(format, a...)})
	}
}

func (w *walker) fatal(class, format string, a ...any) {
	w.problem(class, format, a...)
	panic(abort{})
}

func (w *walker) class(name string) { w.rep.Classes[name]++ }

func (w *walker) u16(pos int, what string) int {
	if pos < 0 || pos+2 > len(w.d) {
		w.fatal("out-of-bounds:"+what, "%s at %d reaches beyond the table (%d bytes)", what, pos, len(w.d))
	}
	return int(w.d[pos])<<8 | int(w.d[pos+1])
}

func (w *walker) u32(pos int, what string) int {
	if pos < 0 || pos+4 > len(w.d) {
		w.fatal("out-of-bounds:"+what, "%s at %d reaches beyond the table (%d bytes)", what, pos, len(w.d))
	}
	return int(w.d[pos])<<24 | int(w.d[pos+1])<<16 | int(w.d[pos+2])<<8 | int(w.d[pos+3])
}

func (w *walker) tag(pos int, what string) string {
	if pos < 0 || pos+4 > len(w.d) {
		w.fatal("out-of-bounds:"+what, "%s at %d reaches beyond the table", what, pos)
	}
	return string(w.d[pos : pos+4])
}

// mark records [start,end) as kind.
func (w *walker) mark(start, end int, kind string) {
	if end > len(w.d) || start < 0 || end < start {
		w.fatal("out-of-bounds:"+kind, "%s [%d,%d) reaches beyond the table (%d bytes)", kind, start, end, len(w.d))
	}
	w.rep.Ranges = append(w.rep.Ranges, Range{start, end, kind})
}

// u16s reads count 16-bit values at pos.
func (w *walker) u16s(pos, count int, what string) []int {
	if pos < 0 || pos+2*count > len(w.d) {
		w.fatal("out-of-bounds:"+what, "%s: %d entries at %d reach beyond the table (%d bytes)", what, count, pos, len(w.d))
	}
	out := make([]int, count)
	for i := range out {
		out[i] = int(w.d[pos+2*i])<<8 | int(w.d[pos+2*i+1])
	}
	return out
}

func (w *walker) finish(tile bool) {
	r := w.rep
	sort.SliceStable(r.Ranges, func(i, j int) bool {
		a, b := r.Ranges[i], r.Ranges[j]
		if a.Start != b.Start {
			return a.Start < b.Start
		}
		if a.End != b.End {
			return a.End < b.End
		}
		return a.Kind < b.Kind
	})
	// drop exact duplicates (shared structures)
	out := r.Ranges[:0]
	for i, x := range r.Ranges {
		if i > 0 && x == r.Ranges[i-1] {
			r.Shared++
			continue
		}
		out = append(out, x)
	}
	r.Ranges = out
	if !tile {
		return
	}
	pos := 0
	for _, x := range r.Ranges {
		if x.Start == x.End {
			continue
		}
		switch {
		case x.Start > pos:
			w.problem("gap", "bytes [%d,%d) are not referenced by any structure (next: %s at %d)", pos, x.Start, x.Kind, x.Start)
		case x.Start < pos:
			w.problem("overlap", "%s [%d,%d) overlaps the preceding structure which ends at %d", x.Kind, x.Start, x.End, pos)
		}
		if x.End > pos {
			pos = x.End
		}
	}
	if pos < len(w.d) {
		w.problem("gap", "trailing bytes [%d,%d) are not referenced by any structure", pos, len(w.d))
	}
}

func run(w *walker, f func()) {
	defer func() {
		if x := recover(); x != nil {
			if _, ok := x.(abort); !ok {
				panic(x)
			}
		}
	}()
	f()
}

// ---------------------------------------------------------------------------
// coverage and class definition tables

// Coverage is a decoded coverage table.
type Coverage struct {
	Glyphs []uint16 // in coverage-index order
	Format int
	Size   int // bytes
}

// ReadCoverage decodes the coverage table at data[off:].
func ReadCoverage(data []byte, off int) (c *Coverage, probs []Problem) {
	w := &walker{d: data, rep: &Report{Classes: map[string]int{}}}
	run(w, func() { c = w.coverage(off, "coverage") })
	return c, w.rep.Problems
}

func (w *walker) coverage(pos int, what string) *Coverage {
	format := w.u16(pos, what+" format")
	n := w.u16(pos+2, what+" count")
	c := &Coverage{Format: format}
	switch format {
	case 1:
		c.Size = 4 + 2*n
		w.mark(pos, pos+c.Size, "Coverage1")
		w.class("cov1")
		prev := -1
		for _, g := range w.u16s(pos+4, n, what+" glyphArray") {
			if g <= prev {
				w.problem("coverage-unsorted", "%s format 1 at %d: glyph %d follows %d", what, pos, g, prev)
			}
			prev = g
			c.Glyphs = append(c.Glyphs, uint16(g))
		}
	case 2:
		c.Size = 4 + 6*n
		w.mark(pos, pos+c.Size, "Coverage2")
		w.class("cov2")
		rec := w.u16s(pos+4, 3*n, what+" rangeRecords")
		prevEnd := -1
		idx := 0
		for i := 0; i < n; i++ {
			start, end, sci := rec[3*i], rec[3*i+1], rec[3*i+2]
			if end < start {
				w.problem("coverage-range-reversed", "%s at %d: range %d-%d", what, pos, start, end)
				continue
			}
			if start <= prevEnd {
				w.problem("coverage-unsorted", "%s format 2 at %d: range %d-%d follows glyph %d", what, pos, start, end, prevEnd)
			}
			if sci != idx {
				w.problem("coverage-index", "%s at %d: range %d-%d has startCoverageIndex %d, expected %d", what, pos, start, end, sci, idx)
			}
			if len(c.Glyphs)+end-start+1 > 65536 {
				w.fatal("coverage-too-many", "%s at %d covers more than 65536 glyphs", what, pos)
			}
			for g := start; g <= end; g++ {
				c.Glyphs = append(c.Glyphs, uint16(g))
			}
			idx += end - start + 1
			prevEnd = end
		}
	default:
		w.fatal("coverage-format", "%s at %d has format %d", what, pos, format)
	}
	// is there a smaller alternative?
	runs := 0
	for i, g := range c.Glyphs {
		if i == 0 || int(g) != int(c.Glyphs[i-1])+1 {
			runs++
		}
	}
	best := 4 + 6*runs
	if len(c.Glyphs) <= 0xFFFF && 4+2*len(c.Glyphs) < best {
		best = 4 + 2*len(c.Glyphs)
	}
	if c.Size > best && len(w.rep.Problems) == 0 {
		w.rep.NotSmallest = append(w.rep.NotSmallest, fmt.Sprintf("%s at %d: format %d uses %d bytes, %d would do (%d glyphs, %d runs)", what, pos, format, c.Size, best, len(c.Glyphs), runs))
	}
	if 4+2*len(c.Glyphs) == 4+6*runs {
		w.class("cov-tie")
	}
	return c
}

// ClassDef is a decoded class definition table.
type ClassDef struct {
	Class  map[uint16]uint16 // non-zero classes only
	Format int
	Size   int
}

// ReadClassDef decodes the class definition table at data[off:].
func ReadClassDef(data []byte, off int) (c *ClassDef, probs []Problem) {
	w := &walker{d: data, rep: &Report{Classes: map[string]int{}}}
	run(w, func() { c = w.classDef(off, "classdef") })
	return c, w.rep.Problems
}

// ClassDefSizes returns the smallest possible sizes of the two formats for a
// glyph -> class map (zero classes are ignored); a format that cannot
// represent the map has size -1.
func ClassDefSizes(m map[uint16]uint16) (format1, format2 int) {
	var gids []int
	for g, c := range m {
		if c != 0 {
			gids = append(gids, int(g))
		}
	}
	if len(gids) == 0 {
		return 6, 4
	}
	sort.Ints(gids)
	span := gids[len(gids)-1] - gids[0] + 1
	format1 = 6 + 2*span
	if span > 0xFFFF {
		format1 = -1
	}
	runs := 0
	for i, g := range gids {
		if i == 0 || g != gids[i-1]+1 || m[uint16(g)] != m[uint16(gids[i-1])] {
			runs++
		}
	}
	format2 = 4 + 6*runs
	if runs > 0xFFFF {
		format2 = -1
	}
	return
}

// CoverageSizes returns the smallest possible sizes of the two coverage
// formats for a set of distinct glyphs (-1: not representable).
func CoverageSizes(sorted []uint16) (format1, format2 int) {
	runs := 0
	for i, g := range sorted {
		if i == 0 || int(g) != int(sorted[i-1])+1 {
			runs++
		}
	}
	format1 = 4 + 2*len(sorted)
	if len(sorted) > 0xFFFF {
		format1 = -1
	}
	return format1, 4 + 6*runs
}

func (w *walker) classDef(pos int, what string) *ClassDef {
	format := w.u16(pos, what+" format")
	c := &ClassDef{Format: format, Class: map[uint16]uint16{}}
	switch format {
	case 1:
		start := w.u16(pos+2, what+" startGlyphID")
		n := w.u16(pos+4, what+" glyphCount")
		c.Size = 6 + 2*n
		w.mark(pos, pos+c.Size, "ClassDef1")
		w.class("classdef1")
		if start+n > 0x10000 {
			w.problem("classdef-range", "%s at %d: start %d + count %d exceeds the glyph range", what, pos, start, n)
		}
		for i, cl := range w.u16s(pos+6, n, what+" classValueArray") {
			if cl != 0 && start+i <= 0xFFFF {
				c.Class[uint16(start+i)] = uint16(cl)
			}
		}
	case 2:
		n := w.u16(pos+2, what+" classRangeCount")
		c.Size = 4 + 6*n
		w.mark(pos, pos+c.Size, "ClassDef2")
		w.class("classdef2")
		rec := w.u16s(pos+4, 3*n, what+" classRangeRecords")
		prevEnd := -1
		for i := 0; i < n; i++ {
			start, end, cl := rec[3*i], rec[3*i+1], rec[3*i+2]
			if end < start {
				w.problem("classdef-range-reversed", "%s at %d: range %d-%d", what, pos, start, end)
				continue
			}
			if start <= prevEnd {
				w.problem("classdef-unsorted", "%s at %d: range %d-%d follows glyph %d", what, pos, start, end, prevEnd)
			}
			prevEnd = end
			if cl != 0 {
				for g := start; g <= end; g++ {
					c.Class[uint16(g)] = uint16(cl)
				}
			}
		}
	default:
		w.fatal("classdef-format", "%s at %d has format %d", what, pos, format)
	}
	f1, f2 := ClassDefSizes(c.Class)
	best := f2
	if best < 0 || (f1 >= 0 && f1 < best) {
		best = f1
	}
	if c.Size > best && len(w.rep.Problems) == 0 {
		w.rep.NotSmallest = append(w.rep.NotSmallest, fmt.Sprintf("%s at %d: format %d uses %d bytes, %d would do", what, pos, format, c.Size, best))
	}
	if f1 == f2 {
		w.class("classdef-tie")
	}
	return c
}

// ---------------------------------------------------------------------------
// GSUB / GPOS

// WalkGSUB walks a GSUB table.
func WalkGSUB(data []byte) *Report { return walkGtab(data, false) }

// WalkGPOS walks a GPOS table.
func WalkGPOS(data []byte) *Report { return walkGtab(data, true) }

func walkGtab(data []byte, gpos bool) *Report {
	rep := &Report{Len: len(data), Classes: map[string]int{}}
	w := &walker{d: data, rep: rep, gpos: gpos}
	run(w, w.gtab)
	w.finish(len(rep.Unsupported) == 0 && len(rep.Problems) == 0)
	return rep
}

func (w *walker) name() string {
	if w.gpos {
		return "GPOS"
	}
	return "GSUB"
}

func (w *walker) offsetIn(base, off int, what string) int {
	if base+off >= len(w.d) {
		w.fatal("offset-out-of-table:"+what, "%s: offset %d from %d points beyond the table (%d bytes)", what, off, base, len(w.d))
	}
	return base + off
}

func (w *walker) gtab() {
	major := w.u16(0, "majorVersion")
	minor := w.u16(2, "minorVersion")
	if major != 1 || minor > 1 {
		w.fatal("version", "version %d.%d", major, minor)
	}
	hdr := 10
	if minor == 1 {
		hdr = 14
		if w.u32(10, "featureVariationsOffset") != 0 {
			w.rep.Unsupported = append(w.rep.Unsupported, "feature-variations")
		}
	}
	w.mark(0, hdr, "Header")
	sl, fl, ll := w.u16(4, "scriptListOffset"), w.u16(6, "featureListOffset"), w.u16(8, "lookupListOffset")
	nFeat, nLook := 0, 0
	if fl != 0 {
		if fl < hdr {
			w.fatal("offset-into-header", "featureListOffset %d", fl)
		}
		nFeat = w.featureList(w.offsetIn(0, fl, "featureListOffset"))
	}
	if ll != 0 {
		if ll < hdr {
			w.fatal("offset-into-header", "lookupListOffset %d", ll)
		}
		nLook = w.lookupList(w.offsetIn(0, ll, "lookupListOffset"))
	}
	if sl != 0 {
		if sl < hdr {
			w.fatal("offset-into-header", "scriptListOffset %d", sl)
		}
		w.scriptList(w.offsetIn(0, sl, "scriptListOffset"), nFeat)
	}
	for _, f := range w.rep.Features {
		for _, l := range f.Lookups {
			if int(l) >= nLook {
				w.class("note:feature-lookup-index-out-of-range")
			}
		}
	}
}

func (w *walker) scriptList(pos, nFeat int) {
	n := w.u16(pos, "scriptCount")
	w.mark(pos, pos+2+6*n, "ScriptList")
	prevTag := ""
	for i := 0; i < n; i++ {
		rec := pos + 2 + 6*i
		tag := w.tag(rec, "scriptTag")
		if i > 0 && tag <= prevTag {
			w.class("note:script-records-unsorted")
		}
		prevTag = tag
		off := w.u16(rec+4, "scriptOffset")
		if off == 0 {
			w.problem("null-offset:script", "script %q has a NULL offset", tag)
			continue
		}
		w.script(w.offsetIn(pos, off, "scriptOffset"), tag, nFeat)
	}
}

func (w *walker) script(pos int, script string, nFeat int) {
	def := w.u16(pos, "defaultLangSysOffset")
	n := w.u16(pos+2, "langSysCount")
	w.mark(pos, pos+4+6*n, "Script")
	if def != 0 {
		w.langSys(w.offsetIn(pos, def, "defaultLangSysOffset"), script, "", nFeat)
	}
	prevTag := ""
	for i := 0; i < n; i++ {
		rec := pos + 4 + 6*i
		tag := w.tag(rec, "langSysTag")
		if i > 0 && tag <= prevTag {
			w.class("note:langsys-records-unsorted")
		}
		prevTag = tag
		off := w.u16(rec+4, "langSysOffset")
		if off == 0 {
			w.problem("null-offset:langsys", "language system %q/%q has a NULL offset", script, tag)
			continue
		}
		w.langSys(w.offsetIn(pos, off, "langSysOffset"), script, tag, nFeat)
	}
}

func (w *walker) langSys(pos int, script, lang string, nFeat int) {
	if w.u16(pos, "lookupOrderOffset") != 0 {
		w.problem("reserved:lookupOrderOffset", "language system %q/%q has a non-NULL lookupOrderOffset", script, lang)
	}
	req := w.u16(pos+2, "requiredFeatureIndex")
	n := w.u16(pos+4, "featureIndexCount")
	w.mark(pos, pos+6+2*n, "LangSys")
	ls := LangSys{Script: script, Lang: lang, Required: uint16(req)}
	for _, f := range w.u16s(pos+6, n, "featureIndices") {
		ls.Features = append(ls.Features, uint16(f))
		if f >= nFeat {
			w.class("note:feature-index-out-of-range")
		}
	}
	if req != 0xFFFF && req >= nFeat {
		w.class("note:feature-index-out-of-range")
	}
	w.rep.Scripts = append(w.rep.Scripts, ls)
}

func (w *walker) featureList(pos int) int {
	n := w.u16(pos, "featureCount")
	w.mark(pos, pos+2+6*n, "FeatureList")
	for i := 0; i < n; i++ {
		rec := pos + 2 + 6*i
		tag := w.tag(rec, "featureTag")
		off := w.u16(rec+4, "featureOffset")
		if off == 0 {
			w.problem("null-offset:feature", "feature %q has a NULL offset", tag)
			continue
		}
		fpos := w.offsetIn(pos, off, "featureOffset")
		if w.u16(fpos, "featureParamsOffset") != 0 {
			w.rep.Unsupported = append(w.rep.Unsupported, "feature-params")
		}
		k := w.u16(fpos+2, "lookupIndexCount")
		w.mark(fpos, fpos+4+2*k, "Feature")
		f := Feature{Tag: tag}
		for _, l := range w.u16s(fpos+4, k, "lookupListIndices") {
			f.Lookups = append(f.Lookups, uint16(l))
		}
		w.rep.Features = append(w.rep.Features, f)
	}
	return n
}

func (w *walker) lookupList(pos int) int {
	n := w.u16(pos, "lookupCount")
	w.mark(pos, pos+2+2*n, "LookupList")
	offs := w.u16s(pos+2, n, "lookupOffsets")
	extType := 7
	if w.gpos {
		extType = 9
	}
	for i, off := range offs {
		if off == 0 {
			w.problem("null-offset:lookup", "lookup %d has a NULL offset", i)
			continue
		}
		lpos := w.offsetIn(pos, off, "lookupOffset")
		lt := w.u16(lpos, "lookupType")
		flags := w.u16(lpos+2, "lookupFlag")
		cnt := w.u16(lpos+4, "subTableCount")
		size := 6 + 2*cnt
		l := Lookup{Offset: lpos, RawType: lt, Type: lt, Flags: uint16(flags)}
		if flags&0x10 != 0 {
			l.MarkFilteringSet = uint16(w.u16(lpos+size, "markFilteringSet"))
			size += 2
		}
		if flags&0x00E0 != 0 {
			w.problem("reserved:lookupFlag", "lookup %d has reserved flag bits set (%#x)", i, flags)
		}
		w.mark(lpos, lpos+size, "Lookup")
		subOffs := w.u16s(lpos+6, cnt, "subtableOffsets")
		wrapped := -1
		for j, so := range subOffs {
			if so == 0 {
				w.problem("null-offset:subtable", "lookup %d subtable %d has a NULL offset", i, j)
				continue
			}
			spos := w.offsetIn(lpos, so, "subtableOffset")
			sub := Sub{Offset: spos}
			tp := lt
			if lt == extType {
				format := w.u16(spos, "extension format")
				if format != 1 {
					w.fatal("extension-format", "lookup %d subtable %d: extension format %d", i, j, format)
				}
				tp = w.u16(spos+2, "extensionLookupType")
				eo := w.u32(spos+4, "extensionOffset")
				w.mark(spos, spos+8, "Extension")
				w.class("ext")
				if tp == extType {
					w.fatal("extension-wraps-extension", "lookup %d subtable %d", i, j)
				}
				if wrapped >= 0 && tp != wrapped {
					w.problem("extension-mixed-types", "lookup %d wraps types %d and %d", i, wrapped, tp)
				}
				wrapped = tp
				if eo == 0 {
					w.fatal("null-offset:extension", "lookup %d subtable %d", i, j)
				}
				spos = w.offsetIn(spos, eo, "extensionOffset")
				sub.Offset, sub.Ext = spos, true
				l.Type = tp
			}
			sub.Format = w.u16(spos, "subtable format")
			w.subtable(spos, tp, sub.Format)
			l.Subtables = append(l.Subtables, sub)
		}
		w.rep.Lookups = append(w.rep.Lookups, l)
	}
	return n
}

func (w *walker) subtable(pos, tp, format int) {
	w.class(fmt.Sprintf("%s%d.%d", w.name(), tp, format))
	key := tp*10 + format
	if w.gpos {
		switch tp {
		case 7:
			key = 50 + format
		case 8:
			key = 60 + format
		default:
			key += 1000
		}
	}
	switch key {
	case 11:
		w.mark(pos, pos+6, "SingleSubst1")
		w.coverage(w.offsetIn(pos, w.u16(pos+2, "coverageOffset"), "coverageOffset"), "SingleSubst1 coverage")
	case 12:
		n := w.u16(pos+4, "glyphCount")
		w.mark(pos, pos+6+2*n, "SingleSubst2")
		w.u16s(pos+6, n, "substituteGlyphIDs")
		c := w.coverage(w.offsetIn(pos, w.u16(pos+2, "coverageOffset"), "coverageOffset"), "SingleSubst2 coverage")
		w.sameCount("SingleSubst2", len(c.Glyphs), n)
	case 21, 31:
		kind := "MultipleSubst"
		if key == 31 {
			kind = "AlternateSubst"
		}
		n := w.u16(pos+4, "sequenceCount")
		w.mark(pos, pos+6+2*n, kind)
		for _, off := range w.u16s(pos+6, n, "sequenceOffsets") {
			sp := w.offsetIn(pos, off, "sequenceOffset")
			k := w.u16(sp, "glyphCount")
			w.mark(sp, sp+2+2*k, kind+"Sequence")
			if k == 0 {
				w.class("note:empty-sequence")
			}
		}
		c := w.coverage(w.offsetIn(pos, w.u16(pos+2, "coverageOffset"), "coverageOffset"), kind+" coverage")
		w.sameCount(kind, len(c.Glyphs), n)
	case 41:
		n := w.u16(pos+4, "ligatureSetCount")
		w.mark(pos, pos+6+2*n, "LigatureSubst")
		for _, off := range w.u16s(pos+6, n, "ligatureSetOffsets") {
			sp := w.offsetIn(pos, off, "ligatureSetOffset")
			k := w.u16(sp, "ligatureCount")
			w.mark(sp, sp+2+2*k, "LigatureSet")
			for _, lo := range w.u16s(sp+2, k, "ligatureOffsets") {
				lp := w.offsetIn(sp, lo, "ligatureOffset")
				cc := w.u16(lp+2, "componentCount")
				if cc == 0 {
					w.problem("ligature-component-count-zero", "ligature at %d", lp)
					cc = 1
				}
				w.mark(lp, lp+4+2*(cc-1), "Ligature")
			}
		}
		c := w.coverage(w.offsetIn(pos, w.u16(pos+2, "coverageOffset"), "coverageOffset"), "LigatureSubst coverage")
		w.sameCount("LigatureSubst", len(c.Glyphs), n)
	case 51:
		n := w.u16(pos+4, "seqRuleSetCount")
		w.mark(pos, pos+6+2*n, "SequenceContext1")
		w.ruleSets(pos, w.u16s(pos+6, n, "seqRuleSetOffsets"), false)
		c := w.coverage(w.offsetIn(pos, w.u16(pos+2, "coverageOffset"), "coverageOffset"), "SequenceContext1 coverage")
		w.sameCount("SequenceContext1", len(c.Glyphs), n)
	case 52:
		n := w.u16(pos+6, "classSeqRuleSetCount")
		w.mark(pos, pos+8+2*n, "SequenceContext2")
		w.ruleSets(pos, w.u16s(pos+8, n, "classSeqRuleSetOffsets"), false)
		w.coverage(w.offsetIn(pos, w.u16(pos+2, "coverageOffset"), "coverageOffset"), "SequenceContext2 coverage")
		w.classDef(w.offsetIn(pos, w.u16(pos+4, "classDefOffset"), "classDefOffset"), "SequenceContext2 classDef")
	case 53:
		g := w.u16(pos+2, "glyphCount")
		k := w.u16(pos+4, "seqLookupCount")
		w.mark(pos, pos+6+2*g+4*k, "SequenceContext3")
		if g == 0 {
			w.problem("context-glyph-count-zero", "SequenceContext3 at %d", pos)
		}
		for _, off := range w.u16s(pos+6, g, "coverageOffsets") {
			w.coverage(w.offsetIn(pos, off, "coverageOffset"), "SequenceContext3 coverage")
		}
	case 61:
		n := w.u16(pos+4, "chainedSeqRuleSetCount")
		w.mark(pos, pos+6+2*n, "ChainedSequenceContext1")
		w.ruleSets(pos, w.u16s(pos+6, n, "chainedSeqRuleSetOffsets"), true)
		c := w.coverage(w.offsetIn(pos, w.u16(pos+2, "coverageOffset"), "coverageOffset"), "ChainedSequenceContext1 coverage")
		w.sameCount("ChainedSequenceContext1", len(c.Glyphs), n)
	case 62:
		n := w.u16(pos+10, "chainedClassSeqRuleSetCount")
		w.mark(pos, pos+12+2*n, "ChainedSequenceContext2")
		w.ruleSets(pos, w.u16s(pos+12, n, "chainedClassSeqRuleSetOffsets"), true)
		w.coverage(w.offsetIn(pos, w.u16(pos+2, "coverageOffset"), "coverageOffset"), "ChainedSequenceContext2 coverage")
		w.classDef(w.offsetIn(pos, w.u16(pos+4, "backtrackClassDefOffset"), "backtrackClassDefOffset"), "ChainedSequenceContext2 backtrack classDef")
		w.classDef(w.offsetIn(pos, w.u16(pos+6, "inputClassDefOffset"), "inputClassDefOffset"), "ChainedSequenceContext2 input classDef")
		w.classDef(w.offsetIn(pos, w.u16(pos+8, "lookaheadClassDefOffset"), "lookaheadClassDefOffset"), "ChainedSequenceContext2 lookahead classDef")
	case 63:
		p := pos + 2
		var covs []int
		for part := 0; part < 3; part++ {
			n := w.u16(p, "glyphCount")
			if part == 1 && n == 0 {
				w.problem("context-glyph-count-zero", "ChainedSequenceContext3 at %d", pos)
			}
			covs = append(covs, w.u16s(p+2, n, "coverageOffsets")...)
			p += 2 + 2*n
		}
		k := w.u16(p, "seqLookupCount")
		p += 2 + 4*k
		w.mark(pos, p, "ChainedSequenceContext3")
		for _, off := range covs {
			w.coverage(w.offsetIn(pos, off, "coverageOffset"), "ChainedSequenceContext3 coverage")
		}
	case 81:
		p := pos + 4
		var covs []int
		for part := 0; part < 2; part++ {
			n := w.u16(p, "glyphCount")
			covs = append(covs, w.u16s(p+2, n, "coverageOffsets")...)
			p += 2 + 2*n
		}
		n := w.u16(p, "glyphCount")
		p += 2 + 2*n
		w.mark(pos, p, "ReverseChainSingleSubst")
		c := w.coverage(w.offsetIn(pos, w.u16(pos+2, "coverageOffset"), "coverageOffset"), "ReverseChainSingleSubst coverage")
		w.sameCount("ReverseChainSingleSubst", len(c.Glyphs), n)
		for _, off := range covs {
			w.coverage(w.offsetIn(pos, off, "coverageOffset"), "ReverseChainSingleSubst context coverage")
		}

	case 1011:
		vf := w.u16(pos+4, "valueFormat")
		w.mark(pos, pos+6+w.vrSize(vf), "SinglePos1")
		w.coverage(w.offsetIn(pos, w.u16(pos+2, "coverageOffset"), "coverageOffset"), "SinglePos1 coverage")
	case 1012:
		vf := w.u16(pos+4, "valueFormat")
		n := w.u16(pos+6, "valueCount")
		w.mark(pos, pos+8+n*w.vrSize(vf), "SinglePos2")
		c := w.coverage(w.offsetIn(pos, w.u16(pos+2, "coverageOffset"), "coverageOffset"), "SinglePos2 coverage")
		w.sameCount("SinglePos2", len(c.Glyphs), n)
	case 1021:
		vf1, vf2 := w.u16(pos+4, "valueFormat1"), w.u16(pos+6, "valueFormat2")
		n := w.u16(pos+8, "pairSetCount")
		w.mark(pos, pos+10+2*n, "PairPos1")
		rec := 2 + w.vrSize(vf1) + w.vrSize(vf2)
		for _, off := range w.u16s(pos+10, n, "pairSetOffsets") {
			sp := w.offsetIn(pos, off, "pairSetOffset")
			k := w.u16(sp, "pairValueCount")
			w.mark(sp, sp+2+k*rec, "PairSet")
			prev := -1
			for i := 0; i < k; i++ {
				g := w.u16(sp+2+i*rec, "secondGlyph")
				if g <= prev {
					w.class("note:pairset-unsorted")
				}
				prev = g
			}
		}
		c := w.coverage(w.offsetIn(pos, w.u16(pos+2, "coverageOffset"), "coverageOffset"), "PairPos1 coverage")
		w.sameCount("PairPos1", len(c.Glyphs), n)
	case 1022:
		vf1, vf2 := w.u16(pos+4, "valueFormat1"), w.u16(pos+6, "valueFormat2")
		c1, c2 := w.u16(pos+12, "class1Count"), w.u16(pos+14, "class2Count")
		w.mark(pos, pos+16+c1*c2*(w.vrSize(vf1)+w.vrSize(vf2)), "PairPos2")
		w.coverage(w.offsetIn(pos, w.u16(pos+2, "coverageOffset"), "coverageOffset"), "PairPos2 coverage")
		w.classDef(w.offsetIn(pos, w.u16(pos+8, "classDef1Offset"), "classDef1Offset"), "PairPos2 classDef1")
		w.classDef(w.offsetIn(pos, w.u16(pos+10, "classDef2Offset"), "classDef2Offset"), "PairPos2 classDef2")
	case 1031:
		n := w.u16(pos+4, "entryExitCount")
		w.mark(pos, pos+6+4*n, "CursivePos")
		for _, off := range w.u16s(pos+6, 2*n, "entryExitRecords") {
			if off != 0 {
				w.anchor(w.offsetIn(pos, off, "anchorOffset"))
			} else {
				w.class("anchor-null")
			}
		}
		c := w.coverage(w.offsetIn(pos, w.u16(pos+2, "coverageOffset"), "coverageOffset"), "CursivePos coverage")
		w.sameCount("CursivePos", len(c.Glyphs), n)
	case 1041, 1061:
		kind := "MarkBasePos"
		if key == 1061 {
			kind = "MarkMarkPos"
		}
		w.mark(pos, pos+12, kind)
		k := w.u16(pos+6, "markClassCount")
		mc := w.coverage(w.offsetIn(pos, w.u16(pos+2, "markCoverageOffset"), "markCoverageOffset"), kind+" mark coverage")
		bc := w.coverage(w.offsetIn(pos, w.u16(pos+4, "baseCoverageOffset"), "baseCoverageOffset"), kind+" base coverage")
		nm := w.markArray(w.offsetIn(pos, w.u16(pos+8, "markArrayOffset"), "markArrayOffset"), k)
		w.sameCount(kind+" marks", len(mc.Glyphs), nm)
		bp := w.offsetIn(pos, w.u16(pos+10, "baseArrayOffset"), "baseArrayOffset")
		nb := w.u16(bp, "baseCount")
		w.mark(bp, bp+2+2*nb*k, "BaseArray")
		for _, off := range w.u16s(bp+2, nb*k, "baseAnchorOffsets") {
			if off != 0 {
				w.anchor(w.offsetIn(bp, off, "anchorOffset"))
			} else {
				w.class("anchor-null")
			}
		}
		w.sameCount(kind+" bases", len(bc.Glyphs), nb)
	case 1051:
		w.mark(pos, pos+12, "MarkLigPos")
		k := w.u16(pos+6, "markClassCount")
		mc := w.coverage(w.offsetIn(pos, w.u16(pos+2, "markCoverageOffset"), "markCoverageOffset"), "MarkLigPos mark coverage")
		lc := w.coverage(w.offsetIn(pos, w.u16(pos+4, "ligatureCoverageOffset"), "ligatureCoverageOffset"), "MarkLigPos ligature coverage")
		nm := w.markArray(w.offsetIn(pos, w.u16(pos+8, "markArrayOffset"), "markArrayOffset"), k)
		w.sameCount("MarkLigPos marks", len(mc.Glyphs), nm)
		lp := w.offsetIn(pos, w.u16(pos+10, "ligatureArrayOffset"), "ligatureArrayOffset")
		nl := w.u16(lp, "ligatureCount")
		w.mark(lp, lp+2+2*nl, "LigatureArray")
		for _, off := range w.u16s(lp+2, nl, "ligatureAttachOffsets") {
			ap := w.offsetIn(lp, off, "ligatureAttachOffset")
			cc := w.u16(ap, "componentCount")
			w.mark(ap, ap+2+2*cc*k, "LigatureAttach")
			for _, ao := range w.u16s(ap+2, cc*k, "ligatureAnchorOffsets") {
				if ao != 0 {
					w.anchor(w.offsetIn(ap, ao, "anchorOffset"))
				}
			}
		}
		w.sameCount("MarkLigPos ligatures", len(lc.Glyphs), nl)
	default:
		w.fatal("unknown-subtable", "%s lookup type %d format %d at %d", w.name(), tp, format, pos)
	}
}

func (w *walker) sameCount(what string, covered, entries int) {
	if covered != entries {
		w.problem("count-mismatch", "%s: coverage has %d glyphs, array has %d entries", what, covered, entries)
	}
}

// vrSize returns the size of a value record of the given format.
func (w *walker) vrSize(vf int) int {
	if vf&0xFF00 != 0 {
		w.problem("reserved:valueFormat", "value format %#x uses reserved bits", vf)
	}
	if vf&0x00F0 != 0 {
		w.class("note:device-offsets-not-followed")
	}
	return 2 * bits.OnesCount16(uint16(vf&0xFF))
}

func (w *walker) anchor(pos int) {
	format := w.u16(pos, "anchorFormat")
	switch format {
	case 1:
		w.mark(pos, pos+6, "Anchor1")
	case 2:
		w.mark(pos, pos+8, "Anchor2")
	case 3:
		w.mark(pos, pos+10, "Anchor3")
		if w.u16(pos+6, "xDeviceOffset") != 0 || w.u16(pos+8, "yDeviceOffset") != 0 {
			w.rep.Unsupported = append(w.rep.Unsupported, "anchor-device")
		}
	default:
		w.fatal("anchor-format", "anchor at %d has format %d", pos, format)
	}
	w.class("anchor")
}

func (w *walker) markArray(pos, classCount int) int {
	n := w.u16(pos, "markCount")
	w.mark(pos, pos+2+4*n, "MarkArray")
	rec := w.u16s(pos+2, 2*n, "markRecords")
	for i := 0; i < n; i++ {
		if rec[2*i] >= classCount {
			w.problem("mark-class-out-of-range", "mark record %d has class %d, markClassCount is %d", i, rec[2*i], classCount)
		}
		if rec[2*i+1] == 0 {
			w.problem("null-offset:mark-anchor", "mark record %d", i)
			continue
		}
		w.anchor(w.offsetIn(pos, rec[2*i+1], "markAnchorOffset"))
	}
	return n
}

// ruleSets walks the rule sets of the format 1 / 2 (chained) contexts.
func (w *walker) ruleSets(base int, offs []int, chained bool) {
	for _, off := range offs {
		if off == 0 {
			w.class("ruleset-null")
			continue
		}
		sp := w.offsetIn(base, off, "ruleSetOffset")
		n := w.u16(sp, "ruleCount")
		w.mark(sp, sp+2+2*n, "RuleSet")
		if n == 0 {
			w.class("ruleset-empty")
		}
		for _, ro := range w.u16s(sp+2, n, "ruleOffsets") {
			rp := w.offsetIn(sp, ro, "ruleOffset")
			if !chained {
				g := w.u16(rp, "glyphCount")
				k := w.u16(rp+2, "seqLookupCount")
				if g == 0 {
					w.problem("context-glyph-count-zero", "rule at %d", rp)
					g = 1
				}
				w.mark(rp, rp+4+2*(g-1)+4*k, "Rule")
				continue
			}
			p := rp
			nb := w.u16(p, "backtrackGlyphCount")
			p += 2 + 2*nb
			ni := w.u16(p, "inputGlyphCount")
			if ni == 0 {
				w.problem("context-glyph-count-zero", "chained rule at %d", rp)
				ni = 1
			}
			p += 2 + 2*(ni-1)
			nl := w.u16(p, "lookaheadGlyphCount")
			p += 2 + 2*nl
			k := w.u16(p, "seqLookupCount")
			p += 2 + 4*k
			w.mark(rp, p, "ChainedRule")
		}
	}
}

// ---------------------------------------------------------------------------
// GDEF

// GDEF is the decoded content of a GDEF table (the parts go-sfnt models).
type GDEF struct {
	GlyphClass      *ClassDef
	MarkAttachClass *ClassDef
	MarkGlyphSets   []*Coverage // nil when the table has no mark glyph sets definition
	HasSets         bool
}

// WalkGDEF walks a GDEF table.
func WalkGDEF(data []byte) (*Report, *GDEF) {
	rep := &Report{Len: len(data), Classes: map[string]int{}}
	w := &walker{d: data, rep: rep}
	g := &GDEF{}
	run(w, func() { w.gdef(g) })
	w.finish(len(rep.Unsupported) == 0 && len(rep.Problems) == 0)
	return rep, g
}

func (w *walker) gdef(g *GDEF) {
	major, minor := w.u16(0, "majorVersion"), w.u16(2, "minorVersion")
	if major != 1 || (minor != 0 && minor != 2 && minor != 3) {
		w.fatal("version", "GDEF version %d.%d", major, minor)
	}
	hdr := 12
	sets := 0
	if minor >= 2 {
		sets = w.u16(12, "markGlyphSetsDefOffset")
		hdr = 14
	}
	if minor >= 3 {
		if w.u32(14, "itemVarStoreOffset") != 0 {
			w.rep.Unsupported = append(w.rep.Unsupported, "item-variation-store")
		}
		hdr = 18
	}
	w.mark(0, hdr, "Header")
	w.class(fmt.Sprintf("gdef-1.%d", minor))
	chk := func(off int, what string) int {
		if off < hdr {
			w.fatal("offset-into-header", "%s %d", what, off)
		}
		return w.offsetIn(0, off, what)
	}
	if off := w.u16(4, "glyphClassDefOffset"); off != 0 {
		g.GlyphClass = w.classDef(chk(off, "glyphClassDefOffset"), "GDEF glyph classDef")
	}
	if off := w.u16(6, "attachListOffset"); off != 0 {
		p := chk(off, "attachListOffset")
		n := w.u16(p+2, "glyphCount")
		w.mark(p, p+4+2*n, "AttachList")
		for _, ao := range w.u16s(p+4, n, "attachPointOffsets") {
			ap := w.offsetIn(p, ao, "attachPointOffset")
			k := w.u16(ap, "pointCount")
			w.mark(ap, ap+2+2*k, "AttachPoint")
		}
		c := w.coverage(w.offsetIn(p, w.u16(p, "coverageOffset"), "coverageOffset"), "AttachList coverage")
		w.sameCount("AttachList", len(c.Glyphs), n)
	}
	if off := w.u16(8, "ligCaretListOffset"); off != 0 {
		p := chk(off, "ligCaretListOffset")
		n := w.u16(p+2, "ligGlyphCount")
		w.mark(p, p+4+2*n, "LigCaretList")
		for _, lo := range w.u16s(p+4, n, "ligGlyphOffsets") {
			lp := w.offsetIn(p, lo, "ligGlyphOffset")
			k := w.u16(lp, "caretCount")
			w.mark(lp, lp+2+2*k, "LigGlyph")
			for _, co := range w.u16s(lp+2, k, "caretValueOffsets") {
				cp := w.offsetIn(lp, co, "caretValueOffset")
				switch f := w.u16(cp, "caretValueFormat"); f {
				case 1, 2:
					w.mark(cp, cp+4, "CaretValue")
				case 3:
					w.mark(cp, cp+6, "CaretValue3")
					w.rep.Unsupported = append(w.rep.Unsupported, "caret-device")
				default:
					w.fatal("caret-format", "caret value at %d has format %d", cp, f)
				}
			}
		}
		c := w.coverage(w.offsetIn(p, w.u16(p, "coverageOffset"), "coverageOffset"), "LigCaretList coverage")
		w.sameCount("LigCaretList", len(c.Glyphs), n)
	}
	if off := w.u16(10, "markAttachClassDefOffset"); off != 0 {
		g.MarkAttachClass = w.classDef(chk(off, "markAttachClassDefOffset"), "GDEF mark attach classDef")
	}
	if sets != 0 {
		p := chk(sets, "markGlyphSetsDefOffset")
		if f := w.u16(p, "markGlyphSets format"); f != 1 {
			w.fatal("markglyphsets-format", "format %d", f)
		}
		n := w.u16(p+2, "markGlyphSetCount")
		w.mark(p, p+4+4*n, "MarkGlyphSets")
		g.HasSets = true
		for i := 0; i < n; i++ {
			off := w.u32(p+4+4*i, "markGlyphSet coverageOffset")
			g.MarkGlyphSets = append(g.MarkGlyphSets, w.coverage(w.offsetIn(p, off, "markGlyphSet coverageOffset"), "mark glyph set"))
		}
	}
}
