package otlwalk

import (
	"strings"
	"testing"
)

func be(v ...int) []byte {
	var b []byte
	for _, x := range v {
		b = append(b, byte(x>>8), byte(x))
	}
	return b
}

func cat(parts ...[]byte) []byte {
	var b []byte
	for _, p := range parts {
		b = append(b, p...)
	}
	return b
}

// gsub assembles a minimal GSUB table by hand (offsets worked out from the
// specification's table layouts) around the given lookup list bytes.
func gsub(lookupList []byte) []byte {
	script := cat(be(1), []byte("latn"), be(8), // ScriptList
		be(4, 0),            // Script: defaultLangSys at 4, no records
		be(0, 0xFFFF, 1, 0)) // LangSys: one feature index
	feature := cat(be(1), []byte("liga"), be(8), be(0, 1, 0))
	hdr := be(1, 0, 10, 10+len(script), 10+len(script)+len(feature))
	return cat(hdr, script, feature, lookupList)
}

func problems(r *Report) string {
	var s []string
	for _, p := range r.Problems {
		s = append(s, p.Class)
	}
	return strings.Join(s, ",")
}

func TestWalkHandBuilt(t *testing.T) {
	cov := be(1, 2, 3, 7)
	single := be(1, 6, 5)
	plain := cat(be(1, 4), be(1, 0, 1, 8), single, cov)
	good := gsub(plain)
	r := WalkGSUB(good)
	if !r.OK() || len(r.NotSmallest) != 0 {
		t.Fatalf("well-formed table: %v %v", r.Problems, r.NotSmallest)
	}
	if len(r.Lookups) != 1 || r.Lookups[0].Type != 1 || r.Lookups[0].Subtables[0].Format != 1 ||
		len(r.Scripts) != 1 || r.Scripts[0].Script != "latn" || r.Scripts[0].Required != 0xFFFF ||
		len(r.Features) != 1 || r.Features[0].Tag != "liga" || r.Classes["cov1"] != 1 {
		t.Fatalf("content: %+v", r)
	}

	// extension: lookup type 7, record (1, type 1, offset 8) followed by the subtable
	ext := cat(be(1, 4), be(7, 0x10, 1, 10, 3), be(1, 1, 0, 8), single, cov)
	r = WalkGSUB(gsub(ext))
	if !r.OK() || r.Lookups[0].Type != 1 || r.Lookups[0].RawType != 7 || !r.Lookups[0].Subtables[0].Ext || r.Lookups[0].MarkFilteringSet != 3 {
		t.Fatalf("extension: %v %+v", r.Problems, r.Lookups)
	}

	for name, c := range map[string]struct {
		data []byte
		want string
	}{
		"trailing bytes":      {cat(good, be(0)), "gap"},
		"unsorted coverage":   {gsub(cat(be(1, 4), be(1, 0, 1, 8), single, be(1, 2, 7, 3))), "coverage-unsorted"},
		"gap before coverage": {gsub(cat(be(1, 4), be(1, 0, 1, 8), be(1, 8, 5), be(0), cov)), "gap"},
		"overlap":             {gsub(cat(be(1, 4), be(1, 0, 1, 8), be(1, 4, 1), cov)), "overlap"},
		"offset beyond table": {gsub(cat(be(1, 4), be(1, 0, 1, 8), be(1, 600, 5), cov)), "offset-out-of-table:coverageOffset"},
		"truncated":           {good[:len(good)-2], "out-of-bounds:Coverage1"},
		"bad start index":     {gsub(cat(be(1, 4), be(1, 0, 1, 8), single, be(2, 1, 3, 9, 1))), "coverage-index"},
		"ext wraps ext":       {gsub(cat(be(1, 4), be(7, 0, 1, 8), be(1, 7, 0, 8), single, cov)), "extension-wraps-extension"},
		"count mismatch":      {gsub(cat(be(1, 4), be(1, 0, 1, 8), be(2, 10, 2, 8, 9), be(1, 1, 3))), "count-mismatch"},
	} {
		r := WalkGSUB(c.data)
		if !strings.Contains(problems(r), c.want) {
			t.Errorf("%s: problems %q, want %q", name, problems(r), c.want)
		}
	}

	// format 2 for two scattered glyphs is larger than format 1
	r = WalkGSUB(gsub(cat(be(1, 4), be(1, 0, 1, 8), single, be(2, 2, 3, 3, 0, 7, 7, 1))))
	if !r.OK() || len(r.NotSmallest) != 1 {
		t.Errorf("not-smallest: %v %v", r.Problems, r.NotSmallest)
	}
}

func TestSizes(t *testing.T) {
	if f1, f2 := CoverageSizes([]uint16{1, 2, 3}); f1 != 10 || f2 != 10 {
		t.Error(f1, f2)
	}
	if f1, f2 := ClassDefSizes(map[uint16]uint16{0: 1, 0xFFFF: 1}); f1 != -1 || f2 != 16 {
		t.Error(f1, f2)
	}
	if f1, f2 := ClassDefSizes(map[uint16]uint16{5: 1, 6: 1, 7: 2}); f1 != 12 || f2 != 16 {
		t.Error(f1, f2)
	}
}
