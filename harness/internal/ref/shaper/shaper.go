// Package shaper is a reference implementation of GSUB/GPOS lookup
// application, written from the OpenType specification (chapter 2 "lookup
// flags", GSUB lookup types 1,2,3,4,5,6,8, GPOS lookup types 1,2,4,6,7,8) and
// from the decisions the repository documents in sections 1-3 of
// opentype/gtab/testcases/gsub.go:
//
//   - new glyphs of a multiple substitution join the input sequence of the
//     enclosing match at the replaced position,
//   - ligature components leave it, the ligature glyph takes the place of the
//     first component,
//   - glyphs skipped inside a ligature move behind the ligature glyph,
//   - the end of a contextual match includes trailing ignored glyphs, and
//     matches of nested lookups cannot extend beyond it,
//   - nested lookups run at their recorded sequence index, resolved against
//     the input sequence as it is when the nested lookup runs.
//
// It works on the library's public data structures but does not call any of
// the library's matching or application code.  It is deliberately simple and
// allocation-happy: the glyph run is rebuilt on every length change and every
// enclosing match is re-indexed explicitly.
//
// The reference detects the region where neither the specification nor the
// documented decisions define the outcome and reports it (Result.Undefined)
// instead of producing an answer.
package shaper

import (
	"sort"

	"seehuhn.de/go/postscript/funit"

	"seehuhn.de/go/sfnt/glyph"
	"seehuhn.de/go/sfnt/opentype/anchor"
	"seehuhn.de/go/sfnt/opentype/gdef"
	"seehuhn.de/go/sfnt/opentype/gtab"
)

// Reasons for leaving a case undecided.
const (
	UndefChildTouchedSkipped = "child-touched-skipped-glyph" // a nested lookup changed a glyph an enclosing match had skipped and a later action depends on it
	UndefResume              = "resume-after-changed-trailing-glyphs"
	UndefActionBudget        = "nested-action-budget"
	UndefLookupIndex         = "lookup-index-out-of-range"
	UndefSeqIndex            = "sequence-index-out-of-range"
	UndefGsub8Direction      = "gsub8-direction"
	UndefGsub8Nested         = "gsub8-nested"
	UndefMarkBase            = "mark-attach-base-ambiguous"
	UndefMarkOffset          = "mark-attach-existing-offset"
	UndefBaseOffset          = "mark-attach-base-has-offset"
	UndefUnimplemented       = "unimplemented-positioning-data"
	UndefClassIndex          = "class-index-out-of-range"
	UndefMarkClass           = "mark-class-out-of-range"
	UndefCovIndex            = "coverage-index-out-of-range"
	UndefFilterSet           = "mark-filtering-set-out-of-range"
	UndefEmptyRepl           = "empty-replacement"
	UndefOverflow            = "int16-overflow"
	UndefUnsupported         = "unsupported-subtable"
	UndefEmptyInput          = "empty-input-sequence"
)

// ActionBudget is the number of nested actions per top-level match up to
// which the reference gives an answer.  (The library has an engine budget of
// 64; what happens beyond it is the business of the safety property.)
const ActionBudget = 60

// Kind enumerates subtable types/formats for the statistics.
type Kind int

const (
	Gsub1_1 Kind = iota
	Gsub1_2
	Gsub2_1
	Gsub3_1
	Gsub4_1
	Gsub5_1
	Gsub5_2
	Gsub5_3
	Gsub6_1
	Gsub6_2
	Gsub6_3
	Gsub8_1
	Gpos1_1
	Gpos1_2
	Gpos2_1
	Gpos2_2
	Gpos4_1
	Gpos6_1
	Gpos7_1
	Gpos7_2
	Gpos7_3
	Gpos8_1
	Gpos8_2
	Gpos8_3
	NumKinds
)

var kindNames = [NumKinds]string{
	"gsub1.1", "gsub1.2", "gsub2.1", "gsub3.1", "gsub4.1",
	"gsub5.1", "gsub5.2", "gsub5.3", "gsub6.1", "gsub6.2", "gsub6.3", "gsub8.1",
	"gpos1.1", "gpos1.2", "gpos2.1", "gpos2.2", "gpos4.1", "gpos6.1",
	"gpos7.1", "gpos7.2", "gpos7.3", "gpos8.1", "gpos8.2", "gpos8.3",
}

func (k Kind) String() string { return kindNames[k] }

// Stats describes what happened during one application.
type Stats struct {
	Matches             [NumKinds]int // successful applications per subtable type/format
	SkippedInside       int           // matches with ignored glyphs between matched glyphs
	LigLater            int           // ligature matches where an earlier candidate of the set failed
	LigLaterAcrossSkips int           // ... and the matching candidate spans skipped glyphs
	LigLaterAcross2     int           // ... at least two skipped glyphs
	MaxDepth            int           // deepest nesting of contextual matches (0 = none)
	MaxActions          int           // largest number of nested actions below one top-level match
	Moved               int           // ligatures that moved skipped glyphs behind themselves
	Tainted             int           // child touched a glyph skipped by an enclosing match (harmless so far)
}

// Result is the outcome of the reference.
type Result struct {
	Seq       []glyph.Info
	Undefined string // non-empty: the outcome is not defined, Seq is meaningless
	Stats     Stats
}

type undef struct{ reason string }

// frame is a contextual match whose nested actions are being run.
type frame struct {
	input []int // live positions of the glyphs of the input sequence, ascending
	end   int   // position after the match, including trailing ignored glyphs
	taint int   // -1, or the smallest position at which membership in input is not defined
}

type engine struct {
	ll      gtab.LookupList
	gd      *gdef.Table
	gpos    bool
	g       []glyph.Info
	frames  []*frame
	actions int
	st      Stats
}

// IsGpos guesses whether a lookup list belongs to a GPOS table.
func IsGpos(ll gtab.LookupList) bool {
	for _, lt := range ll {
		if lt == nil {
			continue
		}
		for _, s := range lt.Subtables {
			switch s.(type) {
			case *gtab.Gpos1_1, *gtab.Gpos1_2, gtab.Gpos2_1, *gtab.Gpos2_2, *gtab.Gpos3_1,
				*gtab.Gpos4_1, *gtab.Gpos5_1, *gtab.Gpos6_1:
				return true
			case *gtab.Gsub1_1, *gtab.Gsub1_2, *gtab.Gsub2_1, *gtab.Gsub3_1, *gtab.Gsub4_1, *gtab.Gsub8_1:
				return false
			}
		}
	}
	for _, lt := range ll {
		if lt != nil && lt.Meta != nil && (lt.Meta.LookupType == 7 || lt.Meta.LookupType == 8) {
			return true
		}
	}
	return false
}

// Apply applies the lookups (in the given order) to a copy of seq.
func Apply(ll gtab.LookupList, gd *gdef.Table, lookups []gtab.LookupIndex, seq []glyph.Info) (res *Result) {
	e := &engine{ll: ll, gd: gd, gpos: IsGpos(ll)}
	e.g = make([]glyph.Info, len(seq))
	for i, gi := range seq {
		e.g[i] = gi
		e.g[i].Text = append([]rune(nil), gi.Text...)
	}
	res = &Result{}
	defer func() {
		if r := recover(); r != nil {
			u, ok := r.(undef)
			if !ok {
				panic(r)
			}
			res.Undefined = u.reason
			res.Seq = nil
			res.Stats = e.st
		}
	}()
	for _, li := range lookups {
		if int(li) >= len(ll) {
			panic(undef{UndefLookupIndex})
		}
		e.runLookup(ll[li])
	}
	res.Seq = e.g
	res.Stats = e.st
	return res
}

// ---- lookup flags ----

func (e *engine) class(gid glyph.ID) uint16 {
	if e.gd == nil || e.gd.GlyphClass == nil {
		return 0
	}
	return e.gd.GlyphClass[gid]
}

// checkMeta flags lookups whose flags refer to data that is not there.
func (e *engine) checkMeta(meta *gtab.LookupMetaInfo) {
	if e.gd == nil || e.gd.GlyphClass == nil {
		return
	}
	f := meta.LookupFlags
	if f&gtab.IgnoreMarks == 0 && f&gtab.UseMarkFilteringSet != 0 {
		if int(meta.MarkFilteringSet) >= len(e.gd.MarkGlyphSets) {
			panic(undef{UndefFilterSet})
		}
	}
}

// ignored implements the lookup flags of chapter 2: glyphs of an ignored
// class are skipped; IgnoreMarks supersedes a mark filtering set, which
// supersedes a mark attachment type.
func (e *engine) ignored(meta *gtab.LookupMetaInfo, gid glyph.ID) bool {
	f := meta.LookupFlags
	switch e.class(gid) {
	case gdef.GlyphClassBase:
		return f&gtab.IgnoreBaseGlyphs != 0
	case gdef.GlyphClassLigature:
		return f&gtab.IgnoreLigatures != 0
	case gdef.GlyphClassMark:
		if f&gtab.IgnoreMarks != 0 {
			return true
		}
		if f&gtab.UseMarkFilteringSet != 0 {
			if int(meta.MarkFilteringSet) >= len(e.gd.MarkGlyphSets) {
				panic(undef{UndefFilterSet})
			}
			return !e.gd.MarkGlyphSets[meta.MarkFilteringSet][gid]
		}
		if t := uint16(f&gtab.MarkAttachTypeMask) >> 8; t != 0 {
			return e.gd.MarkAttachClass[gid] != t
		}
	}
	return false
}

// nextKept returns the first position p with from <= p < end whose glyph is
// not ignored, or -1.
func (e *engine) nextKept(meta *gtab.LookupMetaInfo, from, end int) int {
	for p := from; p < end && p < len(e.g); p++ {
		if !e.ignored(meta, e.g[p].GID) {
			return p
		}
	}
	return -1
}

// prevKept returns the last position p <= from whose glyph is not ignored, or -1.
func (e *engine) prevKept(meta *gtab.LookupMetaInfo, from int) int {
	for p := from; p >= 0; p-- {
		if !e.ignored(meta, e.g[p].GID) {
			return p
		}
	}
	return -1
}

// ---- top level ----

func (e *engine) checkSupported(lt *gtab.LookupTable) (has8 bool) {
	n8 := 0
	for _, s := range lt.Subtables {
		switch s.(type) {
		case *gtab.Gsub8_1:
			n8++
		case *gtab.Gsub1_1, *gtab.Gsub1_2, *gtab.Gsub2_1, *gtab.Gsub3_1, *gtab.Gsub4_1,
			*gtab.Gpos1_1, *gtab.Gpos1_2, gtab.Gpos2_1, *gtab.Gpos2_2, *gtab.Gpos4_1, *gtab.Gpos6_1,
			*gtab.SeqContext1, *gtab.SeqContext2, *gtab.SeqContext3,
			*gtab.ChainedSeqContext1, *gtab.ChainedSeqContext2, *gtab.ChainedSeqContext3:
		default:
			panic(undef{UndefUnsupported})
		}
	}
	if n8 > 0 && n8 != len(lt.Subtables) {
		panic(undef{UndefUnsupported})
	}
	return n8 > 0
}

func (e *engine) runLookup(lt *gtab.LookupTable) {
	if lt == nil || lt.Meta == nil {
		panic(undef{UndefUnsupported})
	}
	e.checkMeta(lt.Meta)
	if e.checkSupported(lt) {
		e.runReverse(lt)
		return
	}
	pos := 0
	for pos < len(e.g) {
		if e.ignored(lt.Meta, e.g[pos].GID) {
			pos++
			continue
		}
		e.actions = 0
		e.frames = e.frames[:0]
		next, ok := e.applyLookupAt(lt, pos, len(e.g), true)
		if !ok {
			pos++
			continue
		}
		if next <= pos {
			panic(undef{UndefEmptyInput})
		}
		pos = next
	}
}

// applyLookupAt tries the subtables of lt in order at position pos; matching
// of input glyphs is restricted to positions < end.
func (e *engine) applyLookupAt(lt *gtab.LookupTable, pos, end int, top bool) (next int, ok bool) {
	for _, s := range lt.Subtables {
		next, ok = e.applySubtable(lt, s, pos, end, top)
		if ok {
			return next, true
		}
	}
	return 0, false
}

func (e *engine) count(k Kind, positions []int) {
	e.st.Matches[k]++
	for i := 1; i < len(positions); i++ {
		if positions[i] != positions[i-1]+1 {
			e.st.SkippedInside++
			break
		}
	}
}

func (e *engine) kind(gsub, gpos Kind) Kind {
	if e.gpos {
		return gpos
	}
	return gsub
}

func (e *engine) applySubtable(lt *gtab.LookupTable, s gtab.Subtable, pos, end int, top bool) (int, bool) {
	meta := lt.Meta
	gid := e.g[pos].GID
	switch l := s.(type) {

	// ---------------- GSUB ----------------
	case *gtab.Gsub1_1:
		if !l.Cov[gid] {
			return 0, false
		}
		e.count(Gsub1_1, nil)
		e.replaceOne(pos, gid+l.Delta) // arithmetic is modulo 65536
		return pos + 1, true

	case *gtab.Gsub1_2:
		idx, ok := l.Cov[gid]
		if !ok {
			return 0, false
		}
		if idx < 0 || idx >= len(l.SubstituteGlyphIDs) {
			panic(undef{UndefCovIndex})
		}
		e.count(Gsub1_2, nil)
		e.replaceOne(pos, l.SubstituteGlyphIDs[idx])
		return pos + 1, true

	case *gtab.Gsub2_1:
		idx, ok := l.Cov[gid]
		if !ok {
			return 0, false
		}
		if idx < 0 || idx >= len(l.Repl) {
			panic(undef{UndefCovIndex})
		}
		repl := l.Repl[idx]
		if len(repl) == 0 {
			// the specification forbids empty sequences
			panic(undef{UndefEmptyRepl})
		}
		e.count(Gsub2_1, nil)
		if len(repl) == 1 {
			e.replaceOne(pos, repl[0])
		} else {
			e.expand(pos, repl)
		}
		return pos + len(repl), true

	case *gtab.Gsub3_1:
		idx, ok := l.Cov[gid]
		if !ok {
			return 0, false
		}
		if idx < 0 || idx >= len(l.Alternates) {
			panic(undef{UndefCovIndex})
		}
		alt := l.Alternates[idx]
		if len(alt) == 0 {
			// documented decision (test case 1_09): the lookup is ignored
			return 0, false
		}
		e.count(Gsub3_1, nil)
		e.replaceOne(pos, alt[0])
		return pos + 1, true

	case *gtab.Gsub4_1:
		idx, ok := l.Cov[gid]
		if !ok {
			return 0, false
		}
		if idx < 0 || idx >= len(l.Repl) {
			panic(undef{UndefCovIndex})
		}
		for j := range l.Repl[idx] {
			lig := &l.Repl[idx][j]
			comps := []int{pos}
			p := pos
			matched := true
			for _, want := range lig.In {
				p = e.nextKept(meta, p+1, end)
				if p < 0 || e.g[p].GID != want {
					matched = false
					break
				}
				comps = append(comps, p)
			}
			if !matched {
				continue
			}
			e.count(Gsub4_1, comps)
			span := comps[len(comps)-1] - comps[0] + 1 - len(comps)
			if j > 0 {
				e.st.LigLater++
				if span >= 1 {
					e.st.LigLaterAcrossSkips++
				}
				if span >= 2 {
					e.st.LigLaterAcross2++
				}
			}
			if span > 0 {
				e.st.Moved++
			}
			e.ligate(comps, lig.Out)
			return pos + 1 + span, true
		}
		return 0, false

	// ---------------- GPOS ----------------
	case *gtab.Gpos1_1:
		if _, ok := l.Cov[gid]; !ok {
			return 0, false
		}
		e.count(Gpos1_1, nil)
		e.adjust(pos, l.Adjust)
		return pos + 1, true

	case *gtab.Gpos1_2:
		idx, ok := l.Cov[gid]
		if !ok {
			return 0, false
		}
		if idx < 0 || idx >= len(l.Adjust) {
			panic(undef{UndefCovIndex})
		}
		e.count(Gpos1_2, nil)
		e.adjust(pos, l.Adjust[idx])
		return pos + 1, true

	case gtab.Gpos2_1:
		p := e.nextKept(meta, pos+1, end)
		if p < 0 {
			return 0, false
		}
		adj, ok := l[glyph.Pair{Left: gid, Right: e.g[p].GID}]
		if !ok {
			return 0, false
		}
		if adj == nil {
			panic(undef{UndefUnsupported})
		}
		e.count(Gpos2_1, []int{pos, p})
		e.adjust(pos, adj.First)
		if adj.Second == nil {
			// no value record for the second glyph: it is the first glyph
			// of the next pair
			return p, true
		}
		e.adjust(p, adj.Second)
		return p + 1, true

	case *gtab.Gpos2_2:
		if !l.Cov[gid] {
			return 0, false
		}
		p := e.nextKept(meta, pos+1, end)
		if p < 0 {
			return 0, false
		}
		c1 := int(l.Class1[gid])
		c2 := int(l.Class2[e.g[p].GID])
		if c1 >= len(l.Adjust) || c2 >= len(l.Adjust[c1]) {
			panic(undef{UndefClassIndex})
		}
		adj := l.Adjust[c1][c2]
		if adj == nil {
			panic(undef{UndefUnsupported})
		}
		e.count(Gpos2_2, []int{pos, p})
		e.adjust(pos, adj.First)
		if adj.Second == nil {
			return p, true
		}
		e.adjust(p, adj.Second)
		return p + 1, true

	case *gtab.Gpos4_1:
		mi, ok := l.MarkCov[gid]
		if !ok {
			return 0, false
		}
		if mi < 0 || mi >= len(l.MarkArray) {
			panic(undef{UndefCovIndex})
		}
		rec := l.MarkArray[mi]
		// Who is the base?  The specification speaks of "the preceding
		// base glyph"; candidates are the nearest preceding non-mark glyph,
		// the nearest preceding non-mark glyph that the lookup flags keep,
		// and the nearest preceding glyph covered by the base coverage.
		cands := [3]int{-1, -1, -1}
		for q := pos - 1; q >= 0; q-- {
			if e.class(e.g[q].GID) != gdef.GlyphClassMark {
				cands[0] = q
				break
			}
		}
		for q := pos - 1; q >= 0; q-- {
			if e.class(e.g[q].GID) != gdef.GlyphClassMark && !e.ignored(meta, e.g[q].GID) {
				cands[1] = q
				break
			}
		}
		for q := pos - 1; q >= 0; q-- {
			if _, ok := l.BaseCov[e.g[q].GID]; ok {
				cands[2] = q
				break
			}
		}
		q, defined := agree(cands[:], func(q int) bool { _, ok := l.BaseCov[e.g[q].GID]; return ok })
		if !defined {
			panic(undef{UndefMarkBase})
		}
		if q < 0 {
			return 0, false
		}
		bi := l.BaseCov[e.g[q].GID]
		if bi < 0 || bi >= len(l.BaseArray) {
			panic(undef{UndefCovIndex})
		}
		if int(rec.Class) >= len(l.BaseArray[bi]) {
			panic(undef{UndefMarkClass})
		}
		if !e.attach(pos, q, l.BaseArray[bi][rec.Class], rec.Table) {
			return 0, false
		}
		e.count(Gpos4_1, nil)
		return pos + 1, true

	case *gtab.Gpos6_1:
		mi, ok := l.Mark1Cov[gid]
		if !ok {
			return 0, false
		}
		if mi < 0 || mi >= len(l.Mark1Array) {
			panic(undef{UndefCovIndex})
		}
		rec := l.Mark1Array[mi]
		// Candidates for the mark to attach to: the immediately preceding
		// glyph, the nearest preceding glyph the lookup flags keep, the
		// nearest preceding glyph covered by the mark2 coverage.  The first
		// two must be marks.
		cands := [3]int{pos - 1, -1, -1}
		for q := pos - 1; q >= 0; q-- {
			if !e.ignored(meta, e.g[q].GID) {
				cands[1] = q
				break
			}
		}
		for q := pos - 1; q >= 0; q-- {
			if _, ok := l.Mark2Cov[e.g[q].GID]; ok {
				cands[2] = q
				break
			}
		}
		usable := func(i int) func(q int) bool {
			return func(q int) bool {
				if _, ok := l.Mark2Cov[e.g[q].GID]; !ok {
					return false
				}
				return i == 2 || e.class(e.g[q].GID) == gdef.GlyphClassMark
			}
		}
		q, defined := agreeF(cands[:], usable)
		if !defined {
			panic(undef{UndefMarkBase})
		}
		if q < 0 {
			return 0, false
		}
		bi := l.Mark2Cov[e.g[q].GID]
		if bi < 0 || bi >= len(l.Mark2Array) {
			panic(undef{UndefCovIndex})
		}
		if int(rec.Class) >= len(l.Mark2Array[bi]) {
			panic(undef{UndefMarkClass})
		}
		if !e.attach(pos, q, l.Mark2Array[bi][rec.Class], rec.Table) {
			return 0, false
		}
		e.count(Gpos6_1, nil)
		return pos + 1, true

	// ---------------- contextual ----------------
	case *gtab.SeqContext1:
		idx, ok := l.Cov[gid]
		if !ok {
			return 0, false
		}
		if idx < 0 || idx >= len(l.Rules) {
			panic(undef{UndefCovIndex})
		}
		for _, rule := range l.Rules[idx] {
			if rule == nil {
				panic(undef{UndefUnsupported})
			}
			in, ok := e.matchInput(meta, pos, end, len(rule.Input), func(i int, g glyph.ID) bool { return g == rule.Input[i] })
			if !ok {
				continue
			}
			e.count(e.kind(Gsub5_1, Gpos7_1), in)
			return e.runActions(meta, in, end, rule.Actions, top), true
		}
		return 0, false

	case *gtab.SeqContext2:
		if _, ok := l.Cov[gid]; !ok {
			return 0, false
		}
		cls := int(l.Input[gid])
		if cls >= len(l.Rules) {
			panic(undef{UndefClassIndex})
		}
		for _, rule := range l.Rules[cls] {
			if rule == nil {
				panic(undef{UndefUnsupported})
			}
			in, ok := e.matchInput(meta, pos, end, len(rule.Input), func(i int, g glyph.ID) bool { return l.Input[g] == rule.Input[i] })
			if !ok {
				continue
			}
			e.count(e.kind(Gsub5_2, Gpos7_2), in)
			return e.runActions(meta, in, end, rule.Actions, top), true
		}
		return 0, false

	case *gtab.SeqContext3:
		if len(l.Input) == 0 {
			panic(undef{UndefEmptyInput})
		}
		if !l.Input[0][gid] {
			return 0, false
		}
		in, ok := e.matchInput(meta, pos, end, len(l.Input)-1, func(i int, g glyph.ID) bool { return l.Input[i+1][g] })
		if !ok {
			return 0, false
		}
		e.count(e.kind(Gsub5_3, Gpos7_3), in)
		return e.runActions(meta, in, end, l.Actions, top), true

	case *gtab.ChainedSeqContext1:
		idx, ok := l.Cov[gid]
		if !ok {
			return 0, false
		}
		if idx < 0 || idx >= len(l.Rules) {
			panic(undef{UndefCovIndex})
		}
		for _, rule := range l.Rules[idx] {
			if rule == nil {
				panic(undef{UndefUnsupported})
			}
			in, ok := e.matchInput(meta, pos, end, len(rule.Input), func(i int, g glyph.ID) bool { return g == rule.Input[i] })
			if !ok {
				continue
			}
			if !e.matchBack(meta, pos, len(rule.Backtrack), func(i int, g glyph.ID) bool { return g == rule.Backtrack[i] }) {
				continue
			}
			if !e.matchAhead(meta, in[len(in)-1], len(rule.Lookahead), func(i int, g glyph.ID) bool { return g == rule.Lookahead[i] }) {
				continue
			}
			e.count(e.kind(Gsub6_1, Gpos8_1), in)
			return e.runActions(meta, in, end, rule.Actions, top), true
		}
		return 0, false

	case *gtab.ChainedSeqContext2:
		if _, ok := l.Cov[gid]; !ok {
			return 0, false
		}
		cls := int(l.Input[gid])
		if cls >= len(l.Rules) {
			panic(undef{UndefClassIndex})
		}
		for _, rule := range l.Rules[cls] {
			if rule == nil {
				panic(undef{UndefUnsupported})
			}
			in, ok := e.matchInput(meta, pos, end, len(rule.Input), func(i int, g glyph.ID) bool { return l.Input[g] == rule.Input[i] })
			if !ok {
				continue
			}
			if !e.matchBack(meta, pos, len(rule.Backtrack), func(i int, g glyph.ID) bool { return l.Backtrack[g] == rule.Backtrack[i] }) {
				continue
			}
			if !e.matchAhead(meta, in[len(in)-1], len(rule.Lookahead), func(i int, g glyph.ID) bool { return l.Lookahead[g] == rule.Lookahead[i] }) {
				continue
			}
			e.count(e.kind(Gsub6_2, Gpos8_2), in)
			return e.runActions(meta, in, end, rule.Actions, top), true
		}
		return 0, false

	case *gtab.ChainedSeqContext3:
		if len(l.Input) == 0 {
			panic(undef{UndefEmptyInput})
		}
		if !l.Input[0][gid] {
			return 0, false
		}
		in, ok := e.matchInput(meta, pos, end, len(l.Input)-1, func(i int, g glyph.ID) bool { return l.Input[i+1][g] })
		if !ok {
			return 0, false
		}
		if !e.matchBack(meta, pos, len(l.Backtrack), func(i int, g glyph.ID) bool { return l.Backtrack[i][g] }) {
			return 0, false
		}
		if !e.matchAhead(meta, in[len(in)-1], len(l.Lookahead), func(i int, g glyph.ID) bool { return l.Lookahead[i][g] }) {
			return 0, false
		}
		e.count(e.kind(Gsub6_3, Gpos8_3), in)
		return e.runActions(meta, in, end, l.Actions, top), true
	}
	panic(undef{UndefUnsupported})
}

// agree decides between candidate attachment targets.  Each candidate is a
// position or -1; a candidate that is not usable means "no attachment".  The
// outcome is defined when all candidates lead to the same result.
func agree(cands []int, usable func(q int) bool) (int, bool) {
	return agreeF(cands, func(int) func(int) bool { return usable })
}

func agreeF(cands []int, usable func(i int) func(q int) bool) (int, bool) {
	out := make([]int, len(cands))
	for i, q := range cands {
		if q >= 0 && usable(i)(q) {
			out[i] = q
		} else {
			out[i] = -1
		}
	}
	for _, o := range out[1:] {
		if o != out[0] {
			return 0, false
		}
	}
	return out[0], true
}

// matchInput matches the glyphs of an input sequence after the first one:
// n further glyphs, each the next not-ignored glyph before end.
func (e *engine) matchInput(meta *gtab.LookupMetaInfo, pos, end, n int, ok func(i int, g glyph.ID) bool) ([]int, bool) {
	in := []int{pos}
	p := pos
	for i := 0; i < n; i++ {
		p = e.nextKept(meta, p+1, end)
		if p < 0 || !ok(i, e.g[p].GID) {
			return nil, false
		}
		in = append(in, p)
	}
	return in, true
}

// matchBack matches a backtrack sequence: entry i is compared with the
// (i+1)-th not-ignored glyph before pos.
func (e *engine) matchBack(meta *gtab.LookupMetaInfo, pos, n int, ok func(i int, g glyph.ID) bool) bool {
	p := pos
	for i := 0; i < n; i++ {
		p = e.prevKept(meta, p-1)
		if p < 0 || !ok(i, e.g[p].GID) {
			return false
		}
	}
	return true
}

// matchAhead matches a lookahead sequence behind the last input glyph.  The
// lookahead is context, not part of the match, so it may use the whole run.
func (e *engine) matchAhead(meta *gtab.LookupMetaInfo, last, n int, ok func(i int, g glyph.ID) bool) bool {
	p := last
	for i := 0; i < n; i++ {
		p = e.nextKept(meta, p+1, len(e.g))
		if p < 0 || !ok(i, e.g[p].GID) {
			return false
		}
	}
	return true
}

// runActions runs the nested lookups of a contextual match and returns the
// position behind the (re-indexed) match.
func (e *engine) runActions(meta *gtab.LookupMetaInfo, in []int, limit int, actions []gtab.SeqLookup, top bool) int {
	// the match ends behind the ignored glyphs that follow the last input
	// glyph, but not behind the enclosing match
	end := in[len(in)-1] + 1
	for end < limit && e.ignored(meta, e.g[end].GID) {
		end++
	}
	fr := &frame{input: in, end: end, taint: -1}
	e.frames = append(e.frames, fr)
	if d := len(e.frames); d > e.st.MaxDepth {
		e.st.MaxDepth = d
	}
	for _, act := range actions {
		e.actions++
		if e.actions > e.st.MaxActions {
			e.st.MaxActions = e.actions
		}
		if e.actions > ActionBudget {
			panic(undef{UndefActionBudget})
		}
		if int(act.LookupListIndex) >= len(e.ll) {
			panic(undef{UndefLookupIndex})
		}
		idx := int(act.SequenceIndex)
		if fr.taint >= 0 && (idx >= len(fr.input) || fr.input[idx] >= fr.taint) {
			panic(undef{UndefChildTouchedSkipped})
		}
		if idx >= len(fr.input) {
			panic(undef{UndefSeqIndex})
		}
		p := fr.input[idx]
		child := e.ll[act.LookupListIndex]
		if child == nil || child.Meta == nil {
			panic(undef{UndefUnsupported})
		}
		e.checkMeta(child.Meta)
		if e.checkSupported(child) {
			panic(undef{UndefGsub8Nested})
		}
		if e.ignored(child.Meta, e.g[p].GID) {
			continue
		}
		e.applyLookupAt(child, p, fr.end, false)
	}
	e.frames = e.frames[:len(e.frames)-1]
	if top {
		// The outer scan resumes behind the match.  If nested lookups left
		// glyphs behind the last input glyph which the outer lookup does not
		// ignore, "behind the match" and "behind the last input glyph" are
		// different places; the documented decisions do not cover that.
		last := -1
		if len(fr.input) > 0 {
			last = fr.input[len(fr.input)-1]
		}
		for p := last + 1; p < fr.end && p < len(e.g); p++ {
			if p >= 0 && !e.ignored(meta, e.g[p].GID) {
				panic(undef{UndefResume})
			}
		}
	}
	return fr.end
}

// ---- edits ----

func contains(s []int, x int) bool {
	i := sort.SearchInts(s, x)
	return i < len(s) && s[i] == x
}

func (fr *frame) setTaint(p int) {
	if fr.taint < 0 || p < fr.taint {
		fr.taint = p
	}
}

// replaceOne replaces the glyph at pos by another glyph (one to one).
func (e *engine) replaceOne(pos int, gid glyph.ID) {
	e.g[pos].GID = gid
	for _, fr := range e.frames {
		if pos < fr.end && !contains(fr.input, pos) {
			fr.setTaint(pos)
			e.st.Tainted++
		}
	}
}

// expand replaces the glyph at pos by k >= 2 glyphs.  The first keeps the
// text of the replaced glyph.
func (e *engine) expand(pos int, gids []glyph.ID) {
	k := len(gids)
	ng := make([]glyph.Info, 0, len(e.g)+k-1)
	ng = append(ng, e.g[:pos]...)
	first := e.g[pos]
	first.GID = gids[0]
	ng = append(ng, first)
	for _, gid := range gids[1:] {
		ng = append(ng, glyph.Info{GID: gid})
	}
	ng = append(ng, e.g[pos+1:]...)
	e.g = ng

	for _, fr := range e.frames {
		if fr.end <= pos {
			continue
		}
		var in []int
		member := false
		for _, p := range fr.input {
			switch {
			case p < pos:
				in = append(in, p)
			case p == pos:
				member = true
				for j := 0; j < k; j++ {
					in = append(in, pos+j)
				}
			default:
				in = append(in, p+k-1)
			}
		}
		fr.input = in
		fr.end += k - 1
		if fr.taint > pos {
			fr.taint += k - 1
		}
		if !member {
			fr.setTaint(pos)
			e.st.Tainted++
		}
	}
}

// ligate merges the glyphs at positions comps (ascending) into one glyph at
// comps[0]; the other glyphs between the first and the last component move
// behind the new glyph, keeping their order.
func (e *engine) ligate(comps []int, out glyph.ID) {
	n := len(comps)
	first, last := comps[0], comps[n-1]
	isComp := map[int]bool{}
	var text []rune
	for _, c := range comps {
		isComp[c] = true
		text = append(text, e.g[c].Text...)
	}
	newPos := map[int]int{first: first}
	ng := make([]glyph.Info, 0, len(e.g))
	ng = append(ng, e.g[:first]...)
	ng = append(ng, glyph.Info{GID: out, Text: text})
	for p := first + 1; p <= last; p++ {
		if !isComp[p] {
			newPos[p] = len(ng)
			ng = append(ng, e.g[p])
		}
	}
	ng = append(ng, e.g[last+1:]...)
	e.g = ng

	mapPos := func(p int) (int, bool) {
		switch {
		case p < first:
			return p, true
		case p > last:
			return p - (n - 1), true
		}
		q, ok := newPos[p]
		return q, ok
	}

	for _, fr := range e.frames {
		if fr.end <= first {
			continue
		}
		member := contains(fr.input, first)
		var in []int
		for _, p := range fr.input {
			if q, ok := mapPos(p); ok {
				in = append(in, q)
			}
		}
		sort.Ints(in)
		fr.input = in
		if fr.end > last {
			fr.end -= n - 1
		} else {
			// cannot happen: nested matches are confined to the frame
			panic(undef{UndefUnsupported})
		}
		if fr.taint > first {
			if fr.taint > last {
				fr.taint -= n - 1
			} else {
				fr.taint = first + 1
			}
		}
		if !member {
			fr.setTaint(first)
			e.st.Tainted++
		}
	}
}

// ---- positioning ----

func add16(a, b funit.Int16) funit.Int16 {
	s := int(a) + int(b)
	if s < -32768 || s > 32767 {
		panic(undef{UndefOverflow})
	}
	return funit.Int16(s)
}

func (e *engine) adjust(pos int, vr *gtab.GposValueRecord) {
	if vr == nil {
		return
	}
	if vr.YAdvance != 0 || vr.XPlacementDevOffs != 0 || vr.YPlacementDevOffs != 0 ||
		vr.XAdvanceDevOffs != 0 || vr.YAdvanceDevOffs != 0 {
		panic(undef{UndefUnimplemented})
	}
	g := &e.g[pos]
	g.XOffset = add16(g.XOffset, vr.XPlacement)
	g.YOffset = add16(g.YOffset, vr.YPlacement)
	g.Advance = add16(g.Advance, vr.XAdvance)
}

// attach places the anchor of the mark at pos on the anchor of the glyph at
// q < pos.  The pen position of the mark is the pen position of the glyph at
// q plus the advances of the glyphs q … pos-1.
func (e *engine) attach(pos, q int, target, mark anchor.Table) bool {
	if target.X == 0 && target.Y == 0 {
		// the data structure cannot tell "no anchor" from the anchor (0,0)
		return false
	}
	if e.g[pos].XOffset != 0 || e.g[pos].YOffset != 0 {
		panic(undef{UndefMarkOffset})
	}
	if e.g[q].XOffset != 0 || e.g[q].YOffset != 0 {
		panic(undef{UndefBaseOffset})
	}
	dx := int(target.X) - int(mark.X)
	dy := int(target.Y) - int(mark.Y)
	for i := q; i < pos; i++ {
		dx -= int(e.g[i].Advance)
	}
	if dx < -32768 || dx > 32767 || dy < -32768 || dy > 32767 {
		panic(undef{UndefOverflow})
	}
	e.g[pos].XOffset = funit.Int16(dx)
	e.g[pos].YOffset = funit.Int16(dy)
	return true
}

// ---- GSUB 8 ----

// runReverse applies a reverse chaining lookup.  The specification processes
// the run from the end to the start; the library documents that it scans
// forward instead.  Both are computed; where they differ the case is outside
// the defined region.
func (e *engine) runReverse(lt *gtab.LookupTable) {
	orig := make([]glyph.ID, len(e.g))
	for i := range e.g {
		orig[i] = e.g[i].GID
	}
	run := func(forward bool) ([]glyph.ID, [NumKinds]int) {
		var m [NumKinds]int
		for i := range e.g {
			e.g[i].GID = orig[i]
		}
		step := func(pos int) {
			gid := e.g[pos].GID
			if e.ignored(lt.Meta, gid) {
				return
			}
			for _, s := range lt.Subtables {
				l := s.(*gtab.Gsub8_1)
				idx, ok := l.Input[gid]
				if !ok {
					continue
				}
				if idx < 0 || idx >= len(l.SubstituteGlyphIDs) {
					panic(undef{UndefCovIndex})
				}
				if !e.matchBack(lt.Meta, pos, len(l.Backtrack), func(i int, g glyph.ID) bool { return l.Backtrack[i].Contains(g) }) {
					continue
				}
				if !e.matchAhead(lt.Meta, pos, len(l.Lookahead), func(i int, g glyph.ID) bool { return l.Lookahead[i].Contains(g) }) {
					continue
				}
				e.g[pos].GID = l.SubstituteGlyphIDs[idx]
				m[Gsub8_1]++
				return
			}
		}
		if forward {
			for pos := 0; pos < len(e.g); pos++ {
				step(pos)
			}
		} else {
			for pos := len(e.g) - 1; pos >= 0; pos-- {
				step(pos)
			}
		}
		out := make([]glyph.ID, len(e.g))
		for i := range e.g {
			out[i] = e.g[i].GID
		}
		return out, m
	}
	fw, _ := run(true)
	bw, m := run(false)
	for i := range fw {
		if fw[i] != bw[i] {
			panic(undef{UndefGsub8Direction})
		}
	}
	e.st.Matches[Gsub8_1] += m[Gsub8_1]
}
