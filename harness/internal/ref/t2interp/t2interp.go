// Package t2interp is an independent interpreter for Type 2 charstrings,
// written from Adobe Technical Note #5177 ("The Type 2 Charstring Format",
// 16 March 2000).  It shares no code with seehuhn.de/go/sfnt/cff.
//
// All operands are 16.16 fixed point numbers held in int64, so additions
// are exact; mul, div and sqrt are exact whenever the true result is
// representable and set Result.Inexact otherwise (the specification does
// not define the rounding).
//
// The interpreter always runs in "strict" mode: every departure from the
// charstring grammar of TN5177 is recorded as a Violation.  Callers that
// only want the outline ignore the list.
package t2interp

import (
	"fmt"
	"math/big"
)

// Fix is a 16.16 fixed point number.
type Fix int64

const One Fix = 1 << 16

func (f Fix) Float() float64 { return float64(f) / 65536 }
func FromInt(i int) Fix      { return Fix(i) << 16 }

// Kind of a path element.
type Kind int

const (
	MoveTo Kind = iota + 1
	LineTo
	CurveTo
	HintMask
	CntrMask
)

func (k Kind) String() string {
	return [...]string{"?", "moveto", "lineto", "curveto", "hintmask", "cntrmask"}[k]
}

// PathOp is one element of the interpreted glyph.  Coordinates are absolute.
type PathOp struct {
	Kind Kind
	X, Y [3]Fix // 1 point for moveto/lineto, 3 for curveto
	Mask []byte
}

func (p PathOp) String() string {
	switch p.Kind {
	case MoveTo, LineTo:
		return fmt.Sprintf("%v(%v,%v)", p.Kind, p.X[0].Float(), p.Y[0].Float())
	case CurveTo:
		return fmt.Sprintf("curveto(%v,%v %v,%v %v,%v)", p.X[0].Float(), p.Y[0].Float(), p.X[1].Float(), p.Y[1].Float(), p.X[2].Float(), p.Y[2].Float())
	}
	return fmt.Sprintf("%v(%x)", p.Kind, p.Mask)
}

// Violation classes.
const (
	VOperandCount    = "operand-count"
	VStackOverflow   = "stack-overflow"
	VStackUnderflow  = "stack-underflow"
	VMisplacedHint   = "misplaced-hint"
	VStemKind        = "stem-operator-kind" // hstem/vstem used although the charstring has hintmask operators
	VMissingEndchar  = "missing-endchar"
	VEndcharNotFinal = "endchar-not-final"
	VCallDepth       = "call-depth"
	VBadSubr         = "bad-subr-index"
	VDrawBeforeMove  = "draw-before-move"
	VTruncatedNumber = "truncated-number"
	VShortMask       = "short-mask"
	VMaskNoStems     = "mask-without-stems"
	VReservedOp      = "reserved-operator"
	VDeprecatedOp    = "deprecated-operator"
	VReturnOutside   = "return-outside-subr"
	VBadArgument     = "bad-argument" // index/roll/put/get argument outside the defined range
	VTooManyStems    = "too-many-stems"
	VSubrNoReturn    = "subr-without-return"
)

type Violation struct {
	Class  string
	Detail string
}

func (v Violation) String() string { return v.Class + ": " + v.Detail }

// Call records one subroutine call.
type Call struct {
	Global bool
	Index  int // unbiased index
	Depth  int // nesting depth of the callee (1 = called from the charstring)
	NSubrs int
}

// Env is the environment of a charstring.
type Env struct {
	GSubrs        [][]byte
	Subrs         [][]byte
	DefaultWidthX float64
	NominalWidthX float64
}

// Result of an interpretation.
type Result struct {
	Ops                []PathOp
	HStem, VStem       []Fix // absolute edge positions, two per stem
	HStemOps, VStemOps int   // number of stem operators per direction (an implicit vstem counts)
	HasWidth           bool
	WidthArg           Fix
	Width              float64
	Violations         []Violation
	Fatal              bool // interpretation stopped before endchar
	Ended              bool // endchar executed
	OpCount            map[string]int
	NumForms           [5]int // 1-byte, 2-byte, 3-byte (28), 5-byte (255) operands; [0] unused
	MaxStack           int    // deepest operand stack seen
	MaxDepth           int    // deepest subroutine nesting seen
	Calls              []Call
	Inexact            bool // a mul/div/sqrt result was not representable
	RangeExceeded      bool // an intermediate value left the 16.16 range
	UsedMaskOps        bool
	MaskBeforeStemOp   bool
	Seac               *[4]Fix // adx ady bchar achar of an endchar in the deprecated seac form
}

// Has reports whether a violation of the class was recorded.
func (r *Result) Has(class string) bool {
	for _, v := range r.Violations {
		if v.Class == class {
			return true
		}
	}
	return false
}

// Bias is the subroutine index bias for a table of n subroutines.
func Bias(n int) int {
	switch {
	case n < 1240:
		return 107
	case n < 33900:
		return 1131
	default:
		return 32768
	}
}

var opName1 = map[int]string{1: "hstem", 3: "vstem", 4: "vmoveto", 5: "rlineto", 6: "hlineto", 7: "vlineto", 8: "rrcurveto",
	10: "callsubr", 11: "return", 14: "endchar", 18: "hstemhm", 19: "hintmask", 20: "cntrmask", 21: "rmoveto", 22: "hmoveto",
	23: "vstemhm", 24: "rcurveline", 25: "rlinecurve", 26: "vvcurveto", 27: "hhcurveto", 29: "callgsubr", 30: "vhcurveto", 31: "hvcurveto"}

var opName2 = map[int]string{0: "dotsection", 3: "and", 4: "or", 5: "not", 9: "abs", 10: "add", 11: "sub", 12: "div", 14: "neg", 15: "eq",
	18: "drop", 20: "put", 21: "get", 22: "ifelse", 23: "random", 24: "mul", 26: "sqrt", 27: "dup", 28: "exch", 29: "index",
	30: "roll", 34: "hflex", 35: "flex", 36: "hflex1", 37: "flex1"}

// OpNames lists every (non-reserved) Type 2 operator name.
func OpNames() []string {
	var out []string
	for _, n := range opName1 {
		out = append(out, n)
	}
	for c, n := range opName2 {
		if c != 0 {
			out = append(out, n)
		}
	}
	return out
}

type machine struct {
	env        *Env
	r          *Result
	stack      []Fix
	x, y       Fix
	moved      bool
	widthDone  bool
	seenMask   bool
	pathBegun  bool // a moveto or path operator has been executed
	vstemSeen  bool
	storage    [32]Fix
	stored     [32]bool
	stop       bool
	usedStemOp bool // hstem/vstem (not the hm variants) used
}

func (m *machine) viol(class, format string, a ...any) {
	if len(m.r.Violations) < 64 {
		m.r.Violations = append(m.r.Violations, Violation{class, fmt.Sprintf(format, a...)})
	}
}

func (m *machine) fatal(class, format string, a ...any) {
	m.viol(class, format, a...)
	m.r.Fatal = true
	m.stop = true
}

func (m *machine) push(v Fix) {
	m.stack = append(m.stack, v)
	if len(m.stack) > m.r.MaxStack {
		m.r.MaxStack = len(m.stack)
	}
	if len(m.stack) > 48 && !m.r.Has(VStackOverflow) {
		m.viol(VStackOverflow, "operand stack reaches %d entries", len(m.stack))
	}
	if v >= 1<<31 || v < -(1<<31) {
		m.r.RangeExceeded = true
	}
}

// need checks for n operands; on underflow it records a fatal violation.
func (m *machine) need(n int, op string) bool {
	if len(m.stack) < n {
		m.fatal(VStackUnderflow, "%s needs %d operands, stack has %d", op, n, len(m.stack))
		return false
	}
	return true
}

func (m *machine) pop() Fix {
	v := m.stack[len(m.stack)-1]
	m.stack = m.stack[:len(m.stack)-1]
	return v
}

// takeWidth implements TN5177 section 3.1 / 4 note 4: the first
// stack-clearing operator may carry the width as an extra first operand.
func (m *machine) takeWidth(present bool) {
	if m.widthDone {
		return
	}
	m.widthDone = true
	if present && len(m.stack) > 0 {
		m.r.HasWidth = true
		m.r.WidthArg = m.stack[0]
		m.r.Width = m.env.NominalWidthX + m.stack[0].Float()
		m.stack = m.stack[1:]
	}
}

func (m *machine) moveTo(dx, dy Fix) {
	m.x += dx
	m.y += dy
	m.moved = true
	m.pathBegun = true
	m.r.Ops = append(m.r.Ops, PathOp{Kind: MoveTo, X: [3]Fix{m.x}, Y: [3]Fix{m.y}})
}

func (m *machine) checkDraw(op string) {
	m.pathBegun = true
	if !m.moved && !m.r.Has(VDrawBeforeMove) {
		m.viol(VDrawBeforeMove, "%s before the first moveto", op)
	}
}

func (m *machine) lineTo(dx, dy Fix) {
	m.x += dx
	m.y += dy
	m.r.Ops = append(m.r.Ops, PathOp{Kind: LineTo, X: [3]Fix{m.x}, Y: [3]Fix{m.y}})
}

func (m *machine) curveTo(dxa, dya, dxb, dyb, dxc, dyc Fix) {
	xa, ya := m.x+dxa, m.y+dya
	xb, yb := xa+dxb, ya+dyb
	m.x, m.y = xb+dxc, yb+dyc
	m.r.Ops = append(m.r.Ops, PathOp{Kind: CurveTo, X: [3]Fix{xa, xb, m.x}, Y: [3]Fix{ya, yb, m.y}})
}

func (m *machine) count(op string, ok bool) {
	if !ok {
		m.viol(VOperandCount+":"+op, "%s with %d operands", op, len(m.stack))
	}
}

func (m *machine) stems(op string, vertical, implicit bool) {
	n := len(m.stack)
	if !implicit {
		if m.seenMask || m.pathBegun {
			m.viol(VMisplacedHint, "%s after the hint section (mask seen %v, path begun %v)", op, m.seenMask, m.pathBegun)
		} else if !vertical && m.vstemSeen {
			m.viol(VMisplacedHint, "%s after a vertical stem operator", op)
		}
		m.count(op, n >= 2 && n%2 == 0)
		if op == "hstem" || op == "vstem" {
			m.usedStemOp = true
		}
	}
	var pos Fix
	for i := 0; i+1 < n; i += 2 {
		pos += m.stack[i]
		a := pos
		pos += m.stack[i+1]
		if vertical {
			m.r.VStem = append(m.r.VStem, a, pos)
		} else {
			m.r.HStem = append(m.r.HStem, a, pos)
		}
	}
	if vertical {
		m.r.VStemOps++
		m.vstemSeen = true
	} else {
		m.r.HStemOps++
	}
	if (len(m.r.HStem)+len(m.r.VStem))/2 > 96 && !m.r.Has(VTooManyStems) {
		m.viol(VTooManyStems, "%d stem hints", (len(m.r.HStem)+len(m.r.VStem))/2)
	}
	m.stack = m.stack[:0]
}

// isqrt returns floor(sqrt(v)) for v >= 0.
func isqrt(v *big.Int) *big.Int { return new(big.Int).Sqrt(v) }

// Run interprets code.
func Run(code []byte, env *Env) *Result {
	if env == nil {
		env = &Env{}
	}
	r := &Result{OpCount: map[string]int{}, Width: env.DefaultWidthX}
	m := &machine{env: env, r: r}
	m.exec(code, 0)
	if !r.Ended && !r.Fatal {
		m.viol(VMissingEndchar, "charstring ends without endchar")
	}
	if r.UsedMaskOps && m.usedStemOp {
		m.viol(VStemKind, "hstem/vstem used in a charstring with hintmask/cntrmask operators")
	}
	return r
}

// exec runs one charstring or subroutine; it returns true if execution
// ended with a return.
func (m *machine) exec(code []byte, depth int) {
	r := m.r
	if depth > r.MaxDepth {
		r.MaxDepth = depth
	}
	i := 0
	for i < len(code) && !m.stop {
		b0 := int(code[i])
		// operands
		switch {
		case b0 >= 32 && b0 <= 246:
			m.push(FromInt(b0 - 139))
			r.NumForms[1]++
			i++
			continue
		case b0 >= 247 && b0 <= 254:
			if i+2 > len(code) {
				m.fatal(VTruncatedNumber, "2-byte number truncated at offset %d", i)
				return
			}
			w := int(code[i+1])
			if b0 <= 250 {
				m.push(FromInt((b0-247)*256 + w + 108))
			} else {
				m.push(FromInt(-(b0-251)*256 - w - 108))
			}
			r.NumForms[2]++
			i += 2
			continue
		case b0 == 28:
			if i+3 > len(code) {
				m.fatal(VTruncatedNumber, "3-byte number truncated at offset %d", i)
				return
			}
			m.push(FromInt(int(int16(uint16(code[i+1])<<8 | uint16(code[i+2])))))
			r.NumForms[3]++
			i += 3
			continue
		case b0 == 255:
			if i+5 > len(code) {
				m.fatal(VTruncatedNumber, "5-byte number truncated at offset %d", i)
				return
			}
			v := int32(uint32(code[i+1])<<24 | uint32(code[i+2])<<16 | uint32(code[i+3])<<8 | uint32(code[i+4]))
			m.push(Fix(v))
			r.NumForms[4]++
			i += 5
			continue
		}
		// operators
		i++
		var name string
		if b0 == 12 {
			if i >= len(code) {
				m.fatal(VTruncatedNumber, "escape byte at the end of the charstring")
				return
			}
			b1 := int(code[i])
			i++
			name = opName2[b1]
			if name == "" {
				m.fatal(VReservedOp, "reserved operator 12 %d", b1)
				return
			}
		} else {
			name = opName1[b0]
			if name == "" {
				m.fatal(VReservedOp, "reserved operator %d", b0)
				return
			}
		}
		r.OpCount[name]++
		st := m.stack
		n := len(st)
		switch name {
		case "hstem", "hstemhm":
			m.takeWidth(n%2 == 1)
			m.stems(name, false, false)
		case "vstem", "vstemhm":
			m.takeWidth(n%2 == 1)
			m.stems(name, true, false)
		case "hintmask", "cntrmask":
			m.takeWidth(n%2 == 1)
			r.UsedMaskOps = true
			if len(m.stack) > 0 {
				// implicit vstem (TN5177 section 4.3)
				if m.seenMask || m.pathBegun {
					m.viol(VMisplacedHint, "%s with %d operands after the hint section", name, len(m.stack))
				}
				m.count(name, len(m.stack)%2 == 0)
				m.stems("vstem(implicit)", true, true)
			}
			m.seenMask = true
			ns := (len(r.HStem) + len(r.VStem)) / 2
			if ns == 0 {
				m.viol(VMaskNoStems, "%s without any stem hint", name)
			}
			k := (ns + 7) / 8
			if i+k > len(code) {
				m.fatal(VShortMask, "%s needs %d mask bytes, %d left", name, k, len(code)-i)
				return
			}
			kind := HintMask
			if name == "cntrmask" {
				kind = CntrMask
			}
			r.Ops = append(r.Ops, PathOp{Kind: kind, Mask: append([]byte{}, code[i:i+k]...)})
			i += k
			m.stack = m.stack[:0]

		case "rmoveto":
			m.takeWidth(n > 2)
			st = m.stack
			m.count(name, len(st) == 2)
			if len(st) >= 2 {
				m.moveTo(st[0], st[1])
			} else {
				m.fatal(VStackUnderflow, "rmoveto with %d operands", len(st))
			}
			m.stack = m.stack[:0]
		case "hmoveto", "vmoveto":
			m.takeWidth(n > 1)
			st = m.stack
			m.count(name, len(st) == 1)
			if len(st) >= 1 {
				if name == "hmoveto" {
					m.moveTo(st[0], 0)
				} else {
					m.moveTo(0, st[0])
				}
			} else {
				m.fatal(VStackUnderflow, "%s with no operand", name)
			}
			m.stack = m.stack[:0]

		case "rlineto":
			m.takeWidth(false)
			m.checkDraw(name)
			m.count(name, n >= 2 && n%2 == 0)
			for j := 0; j+1 < n; j += 2 {
				m.lineTo(st[j], st[j+1])
			}
			m.stack = m.stack[:0]
		case "hlineto", "vlineto":
			m.takeWidth(false)
			m.checkDraw(name)
			m.count(name, n >= 1)
			horiz := name == "hlineto"
			for j := 0; j < n; j++ {
				if horiz {
					m.lineTo(st[j], 0)
				} else {
					m.lineTo(0, st[j])
				}
				horiz = !horiz
			}
			m.stack = m.stack[:0]
		case "rrcurveto":
			m.takeWidth(false)
			m.checkDraw(name)
			m.count(name, n >= 6 && n%6 == 0)
			for j := 0; j+5 < n; j += 6 {
				m.curveTo(st[j], st[j+1], st[j+2], st[j+3], st[j+4], st[j+5])
			}
			m.stack = m.stack[:0]
		case "rcurveline":
			m.takeWidth(false)
			m.checkDraw(name)
			m.count(name, n >= 8 && (n-2)%6 == 0)
			j := 0
			for ; j+5 < n-2; j += 6 {
				m.curveTo(st[j], st[j+1], st[j+2], st[j+3], st[j+4], st[j+5])
			}
			if j+1 < n {
				m.lineTo(st[j], st[j+1])
			}
			m.stack = m.stack[:0]
		case "rlinecurve":
			m.takeWidth(false)
			m.checkDraw(name)
			m.count(name, n >= 8 && (n-6)%2 == 0)
			j := 0
			for ; j+1 < n-6; j += 2 {
				m.lineTo(st[j], st[j+1])
			}
			if j+5 < n {
				m.curveTo(st[j], st[j+1], st[j+2], st[j+3], st[j+4], st[j+5])
			}
			m.stack = m.stack[:0]
		case "hhcurveto", "vvcurveto":
			m.takeWidth(false)
			m.checkDraw(name)
			m.count(name, n >= 4 && (n%4 == 0 || n%4 == 1))
			j := 0
			var first Fix
			if n%4 == 1 {
				first = st[0]
				j = 1
			}
			for ; j+3 < n; j += 4 {
				if name == "hhcurveto" {
					m.curveTo(st[j], first, st[j+1], st[j+2], st[j+3], 0)
				} else {
					m.curveTo(first, st[j], st[j+1], st[j+2], 0, st[j+3])
				}
				first = 0
			}
			m.stack = m.stack[:0]
		case "hvcurveto", "vhcurveto":
			m.takeWidth(false)
			m.checkDraw(name)
			m.count(name, n >= 4 && (n%4 == 0 || n%4 == 1))
			horiz := name == "hvcurveto"
			for j := 0; j+3 < n; j += 4 {
				var last Fix
				if n-j == 5 {
					last = st[j+4]
				}
				if horiz {
					m.curveTo(st[j], 0, st[j+1], st[j+2], last, st[j+3])
				} else {
					m.curveTo(0, st[j], st[j+1], st[j+2], st[j+3], last)
				}
				horiz = !horiz
			}
			m.stack = m.stack[:0]
		case "flex":
			m.takeWidth(false)
			m.checkDraw(name)
			m.count(name, n == 13)
			if n >= 12 {
				m.curveTo(st[0], st[1], st[2], st[3], st[4], st[5])
				m.curveTo(st[6], st[7], st[8], st[9], st[10], st[11])
			}
			m.stack = m.stack[:0]
		case "hflex":
			m.takeWidth(false)
			m.checkDraw(name)
			m.count(name, n == 7)
			if n >= 7 {
				m.curveTo(st[0], 0, st[1], st[2], st[3], 0)
				m.curveTo(st[4], 0, st[5], -st[2], st[6], 0)
			}
			m.stack = m.stack[:0]
		case "hflex1":
			m.takeWidth(false)
			m.checkDraw(name)
			m.count(name, n == 9)
			if n >= 9 {
				m.curveTo(st[0], st[1], st[2], st[3], st[4], 0)
				m.curveTo(st[5], 0, st[6], st[7], st[8], -(st[1] + st[3] + st[7]))
			}
			m.stack = m.stack[:0]
		case "flex1":
			m.takeWidth(false)
			m.checkDraw(name)
			m.count(name, n == 11)
			if n >= 11 {
				dx := st[0] + st[2] + st[4] + st[6] + st[8]
				dy := st[1] + st[3] + st[5] + st[7] + st[9]
				m.curveTo(st[0], st[1], st[2], st[3], st[4], st[5])
				abs := func(v Fix) Fix {
					if v < 0 {
						return -v
					}
					return v
				}
				if abs(dx) > abs(dy) {
					// the last point is (start x + dx + d6, start y)
					m.curveTo(st[6], st[7], st[8], st[9], st[10], -dy)
				} else {
					m.curveTo(st[6], st[7], st[8], st[9], -dx, st[10])
				}
			}
			m.stack = m.stack[:0]

		case "endchar":
			m.takeWidth(n == 1 || n == 5)
			if len(m.stack) == 4 {
				// TN5177 appendix C: "adx ady bchar achar endchar" (the seac form, deprecated)
				r.Seac = &[4]Fix{m.stack[0], m.stack[1], m.stack[2], m.stack[3]}
				m.viol(VDeprecatedOp, "endchar with four operands (seac form)")
			} else {
				m.count(name, len(m.stack) == 0)
			}
			r.Ended = true
			m.stop = true
			if depth == 0 && i < len(code) {
				m.viol(VEndcharNotFinal, "%d bytes follow endchar", len(code)-i)
			}
			m.stack = m.stack[:0]
			return

		case "callsubr", "callgsubr":
			if !m.need(1, name) {
				return
			}
			v := m.pop()
			subrs := m.env.Subrs
			if name == "callgsubr" {
				subrs = m.env.GSubrs
			}
			if v%One != 0 {
				m.viol(VBadArgument, "%s with fractional subroutine number %v", name, v.Float())
			}
			idx := int(v>>16) + Bias(len(subrs))
			if idx < 0 || idx >= len(subrs) {
				m.fatal(VBadSubr, "%s %d (index %d) with %d subroutines", name, int(v>>16), idx, len(subrs))
				return
			}
			if depth+1 > 10 {
				m.fatal(VCallDepth, "subroutine nesting depth %d", depth+1)
				return
			}
			r.Calls = append(r.Calls, Call{Global: name == "callgsubr", Index: idx, Depth: depth + 1, NSubrs: len(subrs)})
			m.exec(subrs[idx], depth+1)
		case "return":
			if depth == 0 {
				m.fatal(VReturnOutside, "return outside a subroutine")
			}
			return

		case "dotsection":
			m.viol(VDeprecatedOp, "dotsection")
			m.stack = m.stack[:0]

		// arithmetic
		case "abs":
			if m.need(1, name) {
				if st[n-1] < 0 {
					st[n-1] = -st[n-1]
				}
			}
		case "neg":
			if m.need(1, name) {
				st[n-1] = -st[n-1]
			}
		case "add":
			if m.need(2, name) {
				a, b := st[n-2], st[n-1]
				m.stack = st[:n-2]
				m.push(a + b)
			}
		case "sub":
			if m.need(2, name) {
				a, b := st[n-2], st[n-1]
				m.stack = st[:n-2]
				m.push(a - b)
			}
		case "mul":
			if m.need(2, name) {
				a, b := st[n-2], st[n-1]
				m.stack = st[:n-2]
				p := new(big.Int).Mul(big.NewInt(int64(a)), big.NewInt(int64(b)))
				q, rem := new(big.Int).QuoRem(p, big.NewInt(65536), new(big.Int))
				if rem.Sign() != 0 {
					r.Inexact = true
				}
				if !q.IsInt64() {
					r.RangeExceeded = true
					q = big.NewInt(0)
				}
				m.push(Fix(q.Int64()))
			}
		case "div":
			if m.need(2, name) {
				a, b := st[n-2], st[n-1]
				m.stack = st[:n-2]
				if b == 0 {
					m.viol(VBadArgument, "division by zero")
					m.push(0)
					break
				}
				p := new(big.Int).Lsh(big.NewInt(int64(a)), 16)
				q, rem := new(big.Int).QuoRem(p, big.NewInt(int64(b)), new(big.Int))
				if rem.Sign() != 0 {
					r.Inexact = true
				}
				m.push(Fix(q.Int64()))
			}
		case "sqrt":
			if m.need(1, name) {
				a := st[n-1]
				if a < 0 {
					m.viol(VBadArgument, "sqrt of a negative number")
					st[n-1] = 0
					break
				}
				p := new(big.Int).Lsh(big.NewInt(int64(a)), 16)
				s := isqrt(p)
				if new(big.Int).Mul(s, s).Cmp(p) != 0 {
					r.Inexact = true
				}
				st[n-1] = Fix(s.Int64())
			}
		case "drop":
			if m.need(1, name) {
				m.stack = st[:n-1]
			}
		case "exch":
			if m.need(2, name) {
				st[n-1], st[n-2] = st[n-2], st[n-1]
			}
		case "dup":
			if m.need(1, name) {
				m.push(st[n-1])
			}
		case "index":
			if m.need(1, name) {
				v := st[n-1]
				idx := int(v >> 16)
				if v%One != 0 {
					m.viol(VBadArgument, "index with fractional argument")
				}
				if idx < 0 {
					idx = 0 // "If i is negative, the top element is copied"
				}
				if n-2-idx < 0 {
					m.fatal(VStackUnderflow, "index %d with %d elements below", idx, n-1)
					return
				}
				st[n-1] = st[n-2-idx]
			}
		case "roll":
			if m.need(2, name) {
				nn, jj := st[n-2], st[n-1]
				if nn%One != 0 || jj%One != 0 {
					m.viol(VBadArgument, "roll with fractional arguments")
				}
				N, J := int(nn>>16), int(jj>>16)
				m.stack = st[:n-2]
				if N < 0 {
					m.viol(VBadArgument, "roll with negative N")
					break
				}
				if N > n-2 {
					m.fatal(VStackUnderflow, "roll of %d elements, stack has %d", N, n-2)
					return
				}
				if N == 0 {
					break
				}
				seg := m.stack[n-2-N:]
				J %= N
				if J < 0 {
					J += N
				}
				// positive J: upward motion, i.e. towards the top of the stack; the
				// top J elements wrap around to the bottom of the segment
				tmp := append([]Fix{}, seg...)
				for k := range seg {
					seg[(k+J)%N] = tmp[k]
				}
			}
		case "put":
			if m.need(2, name) {
				v, iv := st[n-2], st[n-1]
				m.stack = st[:n-2]
				idx := int(iv >> 16)
				if iv%One != 0 || idx < 0 || idx >= 32 {
					m.viol(VBadArgument, "put with index %v", iv.Float())
					break
				}
				m.storage[idx] = v
				m.stored[idx] = true
			}
		case "get":
			if m.need(1, name) {
				iv := st[n-1]
				idx := int(iv >> 16)
				if iv%One != 0 || idx < 0 || idx >= 32 || !m.stored[idx] {
					m.viol(VBadArgument, "get with index %v (stored: %v)", iv.Float(), idx >= 0 && idx < 32 && m.stored[idx])
					st[n-1] = 0
					break
				}
				st[n-1] = m.storage[idx]
			}
		case "and", "or", "eq":
			if m.need(2, name) {
				a, b := st[n-2], st[n-1]
				var v bool
				switch name {
				case "and":
					v = a != 0 && b != 0
				case "or":
					v = a != 0 || b != 0
				default:
					v = a == b
				}
				m.stack = st[:n-2]
				if v {
					m.push(One)
				} else {
					m.push(0)
				}
			}
		case "not":
			if m.need(1, name) {
				if st[n-1] == 0 {
					st[n-1] = One
				} else {
					st[n-1] = 0
				}
			}
		case "ifelse":
			if m.need(4, name) {
				s1, s2, v1, v2 := st[n-4], st[n-3], st[n-2], st[n-1]
				m.stack = st[:n-4]
				if v1 <= v2 {
					m.push(s1)
				} else {
					m.push(s2)
				}
			}
		case "random":
			// any value in (0,1]; callers must not let the result reach the output
			m.push(One)
		default:
			m.fatal(VReservedOp, "unhandled operator %s", name)
			return
		}
	}
	if depth > 0 && !m.stop {
		// a subroutine whose bytes ran out without return/endchar
		m.viol(VSubrNoReturn, "subroutine at depth %d ends without return", depth)
	}
}
