// Package cffmini is an independent reader and a minimal writer for the
// Compact Font Format, written from Adobe Technical Note #5176 ("The Compact
// Font Format Specification", version 1.0).  It shares no code with
// seehuhn.de/go/sfnt/cff.
//
// The reader is a structural walker: it follows the offsets of the Top DICT,
// records every byte range it interprets and reports every violated
// structural rule as a Problem instead of giving up early.
package cffmini

import (
	"fmt"
	"math"
	"sort"
	"strconv"
)

// Problem is one violated structural rule.
type Problem struct {
	Rule string // short, input-independent class
	Msg  string
}

func (p Problem) String() string { return p.Rule + ": " + p.Msg }

// Index is a parsed INDEX structure.
type Index struct {
	Start, End int // byte range of the whole INDEX in the file
	Count      int
	OffSize    int      // 0 for an empty INDEX
	Offsets    []uint32 // the count+1 stored offsets (first must be 1)
	Data       [][]byte
	MinOffSize int // smallest offSize that could hold the last offset
}

// Number forms of DICT operands.
const (
	FormInt1 = 1 // 32..246
	FormInt2 = 2 // 247..254
	FormInt3 = 3 // 28
	FormInt5 = 5 // 29
	FormReal = 6 // 30
)

// Operand is one DICT operand.
type Operand struct {
	Form int
	Int  int64   // value for the integer forms
	Real float64 // value (also set for integers)
	Text string  // the decimal text of a real operand
}

func (o Operand) IsInt() bool { return o.Form != FormReal }

// Entry is one operator with its operands.
type Entry struct {
	Op       int // 0..21, or 0x0c00|b1 for escaped operators
	Operands []Operand
	Pos      int // offset of the first operand byte inside the DICT
}

// Dict is a parsed DICT in file order.
type Dict struct {
	Entries []Entry
}

// Get returns the operands of the last occurrence of op.
func (d *Dict) Get(op int) ([]Operand, bool) {
	if d == nil {
		return nil, false
	}
	for i := len(d.Entries) - 1; i >= 0; i-- {
		if d.Entries[i].Op == op {
			return d.Entries[i].Operands, true
		}
	}
	return nil, false
}

// Num returns the single numeric operand of op, or def.
func (d *Dict) Num(op int, def float64) float64 {
	v, ok := d.Get(op)
	if !ok || len(v) != 1 {
		return def
	}
	return v[0].Real
}

// Int returns the single integer operand of op.
func (d *Dict) Int(op int) (int, bool) {
	v, ok := d.Get(op)
	if !ok || len(v) != 1 || !v[0].IsInt() {
		return 0, false
	}
	return int(v[0].Int), true
}

// DICT operators (TN5176 tables 9, 10, 23).
const (
	OpVersion            = 0
	OpNotice             = 1
	OpFullName           = 2
	OpFamilyName         = 3
	OpWeight             = 4
	OpFontBBox           = 5
	OpBlueValues         = 6
	OpOtherBlues         = 7
	OpFamilyBlues        = 8
	OpFamilyOtherBlues   = 9
	OpStdHW              = 10
	OpStdVW              = 11
	OpUniqueID           = 13
	OpXUID               = 14
	OpCharset            = 15
	OpEncoding           = 16
	OpCharStrings        = 17
	OpPrivate            = 18
	OpSubrs              = 19
	OpDefaultWidthX      = 20
	OpNominalWidthX      = 21
	OpCopyright          = 0x0c00
	OpIsFixedPitch       = 0x0c01
	OpItalicAngle        = 0x0c02
	OpUnderlinePosition  = 0x0c03
	OpUnderlineThickness = 0x0c04
	OpPaintType          = 0x0c05
	OpCharstringType     = 0x0c06
	OpFontMatrix         = 0x0c07
	OpStrokeWidth        = 0x0c08
	OpBlueScale          = 0x0c09
	OpBlueShift          = 0x0c0a
	OpBlueFuzz           = 0x0c0b
	OpStemSnapH          = 0x0c0c
	OpStemSnapV          = 0x0c0d
	OpForceBold          = 0x0c0e
	OpLanguageGroup      = 0x0c11
	OpExpansionFactor    = 0x0c12
	OpInitialRandomSeed  = 0x0c13
	OpSyntheticBase      = 0x0c14
	OpPostScript         = 0x0c15
	OpBaseFontName       = 0x0c16
	OpBaseFontBlend      = 0x0c17
	OpROS                = 0x0c1e
	OpCIDFontVersion     = 0x0c1f
	OpCIDFontRevision    = 0x0c20
	OpCIDFontType        = 0x0c21
	OpCIDCount           = 0x0c22
	OpUIDBase            = 0x0c23
	OpFDArray            = 0x0c24
	OpFDSelect           = 0x0c25
	OpFontName           = 0x0c26
)

// FD is one font dictionary (the only one for a simple font) with its
// Private DICT and local subroutines.
type FD struct {
	FontDict      *Dict // nil for a simple font
	Private       *Dict
	PrivOffset    int
	PrivSize      int
	Subrs         *Index // nil when the Private DICT has no Subrs operator
	SubrsOffset   int    // as stored (relative to the Private DICT)
	DefaultWidthX float64
	NominalWidthX float64
}

// LocalSubrs returns the subroutine bodies (nil if absent).
func (fd *FD) LocalSubrs() [][]byte {
	if fd.Subrs == nil {
		return nil
	}
	return fd.Subrs.Data
}

// Section is a byte range of the file that the walker interpreted.
type Section struct {
	Name       string
	Start, End int
}

// Font is the result of a walk.
type Font struct {
	Raw                            []byte
	Major, Minor, HdrSize, OffSize int
	Names, TopDicts, Strings       *Index
	GSubrs                         *Index
	Top                            *Dict
	CharStrings                    *Index
	NGlyphs                        int

	IsCID bool

	CharsetOffset int   // 0,1,2 = predefined
	CharsetFormat int   // -1 for predefined charsets
	CharsetRanges int   // number of ranges (formats 1, 2)
	Charset       []int // SID or CID per glyph; Charset[0] = 0

	EncodingOffset  int // 0,1 = predefined; -1 = not applicable (CID)
	EncodingFormat  int // format byte without the supplement bit; -1 predefined
	EncodingSuppl   bool
	EncodingNCodes  int // nCodes (format 0) or number of codes covered by the ranges (format 1)
	EncodingNRanges int
	NSups           int
	Code2GID        [256]int // built-in encoding: code -> glyph index (0 = unencoded)

	FDArray        *Index
	FDs            []*FD
	FDSelectFormat int // -1 simple font
	FDSelectRanges int
	FDSelect       []int // per glyph

	Sections []Section
	Problems []Problem
}

func (f *Font) prob(rule, format string, a ...any) {
	f.Problems = append(f.Problems, Problem{rule, fmt.Sprintf(format, a...)})
}

func (f *Font) section(name string, start, end int) {
	f.Sections = append(f.Sections, Section{name, start, end})
}

// String returns the string with the given SID.
func (f *Font) String(sid int) (string, bool) {
	if sid < 0 {
		return "", false
	}
	if sid < NStd {
		return StdStrings[sid], true
	}
	sid -= NStd
	if f.Strings == nil || sid >= len(f.Strings.Data) {
		return "", false
	}
	return string(f.Strings.Data[sid]), true
}

// TopString returns the string operand of a Top DICT operator.
func (f *Font) TopString(op int) (string, bool) {
	v, ok := f.Top.Get(op)
	if !ok || len(v) != 1 || !v[0].IsInt() {
		return "", false
	}
	return f.String(int(v[0].Int))
}

// GlyphName returns the name of a glyph of a simple font.
func (f *Font) GlyphName(gid int) (string, bool) {
	if f.IsCID || gid < 0 || gid >= len(f.Charset) {
		return "", false
	}
	return f.String(f.Charset[gid])
}

// ParseIndex parses an INDEX at pos.  ok=false means the structure could
// not be followed to its end.
func (f *Font) ParseIndex(name string, pos int) (*Index, bool) {
	b := f.Raw
	if pos < 0 || pos+2 > len(b) {
		f.prob("index:out-of-file", "%s INDEX at %d outside the file (%d bytes)", name, pos, len(b))
		return nil, false
	}
	ix := &Index{Start: pos, Count: int(b[pos])<<8 | int(b[pos+1])}
	if ix.Count == 0 {
		ix.End = pos + 2
		f.section(name+" INDEX", ix.Start, ix.End)
		return ix, true
	}
	if pos+3 > len(b) {
		f.prob("index:truncated", "%s INDEX header truncated", name)
		return nil, false
	}
	ix.OffSize = int(b[pos+2])
	if ix.OffSize < 1 || ix.OffSize > 4 {
		f.prob("index:offsize-range", "%s INDEX has offSize %d", name, ix.OffSize)
		return nil, false
	}
	p := pos + 3
	if p+(ix.Count+1)*ix.OffSize > len(b) {
		f.prob("index:truncated", "%s INDEX offset array (count %d, offSize %d) exceeds the file", name, ix.Count, ix.OffSize)
		return nil, false
	}
	ix.Offsets = make([]uint32, ix.Count+1)
	for i := range ix.Offsets {
		var v uint32
		for j := 0; j < ix.OffSize; j++ {
			v = v<<8 | uint32(b[p])
			p++
		}
		ix.Offsets[i] = v
	}
	ok := true
	if ix.Offsets[0] != 1 {
		f.prob("index:first-offset", "%s INDEX: first offset is %d, must be 1", name, ix.Offsets[0])
		ok = false
	}
	for i := 1; i <= ix.Count; i++ {
		if ix.Offsets[i] < ix.Offsets[i-1] {
			f.prob("index:offsets-not-monotone", "%s INDEX: offset[%d]=%d < offset[%d]=%d", name, i, ix.Offsets[i], i-1, ix.Offsets[i-1])
			ok = false
			break
		}
	}
	if !ok {
		return nil, false
	}
	dataLen := int(ix.Offsets[ix.Count]) - 1
	if p+dataLen > len(b) {
		f.prob("index:data-exceeds-file", "%s INDEX: data of %d bytes at %d exceeds the file (%d bytes)", name, dataLen, p, len(b))
		return nil, false
	}
	ix.Data = make([][]byte, ix.Count)
	for i := 0; i < ix.Count; i++ {
		ix.Data[i] = b[p+int(ix.Offsets[i])-1 : p+int(ix.Offsets[i+1])-1]
	}
	ix.End = p + dataLen
	ix.MinOffSize = 1
	for uint64(ix.Offsets[ix.Count]) >= uint64(1)<<(8*uint(ix.MinOffSize)) {
		ix.MinOffSize++
	}
	f.section(name+" INDEX", ix.Start, ix.End)
	return ix, true
}

// ParseDict decodes DICT data.  Problems are reported under the given name.
func (f *Font) ParseDict(name string, b []byte) (*Dict, bool) {
	d, err := DecodeDict(b)
	if err != nil {
		f.prob("dict:malformed", "%s DICT: %v", name, err)
		return d, false
	}
	return d, true
}

// DecodeDict decodes DICT data (TN5176 section 4).
func DecodeDict(b []byte) (*Dict, error) {
	d := &Dict{}
	var ops []Operand
	start := 0
	i := 0
	for i < len(b) {
		b0 := int(b[i])
		switch {
		case b0 <= 21:
			op := b0
			i++
			if b0 == 12 {
				if i >= len(b) {
					return d, fmt.Errorf("escape byte at end of DICT")
				}
				op = 0x0c00 | int(b[i])
				i++
			}
			d.Entries = append(d.Entries, Entry{Op: op, Operands: ops, Pos: start})
			ops = nil
			start = i
		case b0 == 28:
			if i+3 > len(b) {
				return d, fmt.Errorf("truncated 3-byte integer at %d", i)
			}
			v := int64(int16(uint16(b[i+1])<<8 | uint16(b[i+2])))
			ops = append(ops, Operand{Form: FormInt3, Int: v, Real: float64(v)})
			i += 3
		case b0 == 29:
			if i+5 > len(b) {
				return d, fmt.Errorf("truncated 5-byte integer at %d", i)
			}
			v := int64(int32(uint32(b[i+1])<<24 | uint32(b[i+2])<<16 | uint32(b[i+3])<<8 | uint32(b[i+4])))
			ops = append(ops, Operand{Form: FormInt5, Int: v, Real: float64(v)})
			i += 5
		case b0 == 30:
			i++
			var s []byte
			done := false
			for !done {
				if i >= len(b) {
					return d, fmt.Errorf("unterminated real number")
				}
				for _, nib := range []byte{b[i] >> 4, b[i] & 15} {
					switch {
					case nib <= 9:
						s = append(s, '0'+nib)
					case nib == 0xa:
						s = append(s, '.')
					case nib == 0xb:
						s = append(s, 'E')
					case nib == 0xc:
						s = append(s, 'E', '-')
					case nib == 0xd:
						return d, fmt.Errorf("reserved nibble d in real number")
					case nib == 0xe:
						s = append(s, '-')
					default:
						done = true
					}
					if done {
						break
					}
				}
				i++
			}
			v, err := strconv.ParseFloat(string(s), 64)
			if err != nil && !(math.IsInf(v, 0) || v == 0) {
				return d, fmt.Errorf("real number %q: %v", s, err)
			}
			ops = append(ops, Operand{Form: FormReal, Real: v, Text: string(s)})
		case b0 >= 32 && b0 <= 246:
			v := int64(b0 - 139)
			ops = append(ops, Operand{Form: FormInt1, Int: v, Real: float64(v)})
			i++
		case b0 >= 247 && b0 <= 254:
			if i+2 > len(b) {
				return d, fmt.Errorf("truncated 2-byte integer at %d", i)
			}
			var v int64
			if b0 <= 250 {
				v = int64(b0-247)*256 + int64(b[i+1]) + 108
			} else {
				v = -int64(b0-251)*256 - int64(b[i+1]) - 108
			}
			ops = append(ops, Operand{Form: FormInt2, Int: v, Real: float64(v)})
			i += 2
		default:
			return d, fmt.Errorf("reserved byte %d at %d", b0, i)
		}
		if len(ops) > 48 {
			return d, fmt.Errorf("more than 48 operands")
		}
	}
	if len(ops) != 0 {
		return d, fmt.Errorf("%d operands without operator at the end", len(ops))
	}
	return d, nil
}

// Parse walks a CFF file.  The returned Font is filled as far as the walk
// got; err != nil means the walk could not reach the glyph data.
func Parse(b []byte) (*Font, error) {
	f := &Font{Raw: b, CharsetFormat: -1, EncodingFormat: -1, EncodingOffset: -1, FDSelectFormat: -1}
	fail := func() (*Font, error) {
		if len(f.Problems) == 0 {
			f.prob("walk:failed", "walk failed")
		}
		return f, fmt.Errorf("cffmini: %s", f.Problems[len(f.Problems)-1])
	}
	if len(b) < 4 {
		f.prob("header:short", "file has %d bytes", len(b))
		return fail()
	}
	f.Major, f.Minor, f.HdrSize, f.OffSize = int(b[0]), int(b[1]), int(b[2]), int(b[3])
	if f.Major != 1 {
		f.prob("header:major", "major version %d", f.Major)
		return fail()
	}
	if f.HdrSize < 4 || f.HdrSize > len(b) {
		f.prob("header:hdrSize", "hdrSize %d", f.HdrSize)
		return fail()
	}
	if f.OffSize < 1 || f.OffSize > 4 {
		f.prob("header:offSize-range", "header offSize %d", f.OffSize)
	}
	f.section("Header", 0, f.HdrSize)
	var ok bool
	if f.Names, ok = f.ParseIndex("Name", f.HdrSize); !ok {
		return fail()
	}
	if f.TopDicts, ok = f.ParseIndex("Top DICT", f.Names.End); !ok {
		return fail()
	}
	if f.Strings, ok = f.ParseIndex("String", f.TopDicts.End); !ok {
		return fail()
	}
	if f.GSubrs, ok = f.ParseIndex("Global Subr", f.Strings.End); !ok {
		return fail()
	}
	if f.Names.Count != 1 || f.TopDicts.Count != 1 {
		f.prob("fontset:count", "Name INDEX has %d entries, Top DICT INDEX has %d (want 1, 1)", f.Names.Count, f.TopDicts.Count)
		if f.TopDicts.Count < 1 {
			return fail()
		}
	}
	if f.Top, ok = f.ParseDict("Top", f.TopDicts.Data[0]); !ok {
		return fail()
	}
	if ct := f.Top.Num(OpCharstringType, 2); ct != 2 {
		f.prob("top:charstring-type", "CharstringType %v", ct)
		return fail()
	}

	// the header offSize must be able to hold every absolute offset
	if f.OffSize >= 1 && f.OffSize <= 4 && f.OffSize < 4 && len(b) > 0 {
		if uint64(len(b)-1) >= uint64(1)<<(8*uint(f.OffSize)) {
			f.prob("header:offSize-insufficient", "header offSize %d cannot address a file of %d bytes", f.OffSize, len(b))
		}
	}

	cso, has := f.Top.Int(OpCharStrings)
	if !has {
		f.prob("top:no-charstrings", "Top DICT has no (integer) CharStrings operand")
		return fail()
	}
	if f.CharStrings, ok = f.ParseIndex("CharStrings", cso); !ok {
		return fail()
	}
	f.NGlyphs = f.CharStrings.Count
	if f.NGlyphs == 0 {
		f.prob("charstrings:empty", "CharStrings INDEX is empty")
		return fail()
	}

	if ros, isCID := f.Top.Get(OpROS); isCID {
		f.IsCID = true
		if len(ros) != 3 || !ros[0].IsInt() || !ros[1].IsInt() {
			f.prob("top:ros", "ROS has %d operands", len(ros))
		}
	}

	// charset
	f.CharsetOffset = int(f.Top.Num(OpCharset, 0))
	if v, ok := f.Top.Get(OpCharset); ok && (len(v) != 1 || !v[0].IsInt()) {
		f.prob("top:charset-operand", "charset operand is not a single integer")
	}
	if f.CharsetOffset > 2 {
		if !f.parseCharset(f.CharsetOffset) {
			return fail()
		}
	} else if f.IsCID {
		f.prob("charset:predefined-in-cid-font", "CID-keyed font uses predefined charset %d", f.CharsetOffset)
	} else {
		// predefined charsets are not reproduced here; only ISOAdobe is simple
		if f.CharsetOffset == 0 && f.NGlyphs <= 229 {
			f.Charset = make([]int, f.NGlyphs)
			for i := range f.Charset {
				f.Charset[i] = i
			}
		}
	}

	// FDArray / Private
	if f.IsCID {
		fdo, has := f.Top.Int(OpFDArray)
		if !has {
			f.prob("top:no-fdarray", "CID-keyed font without FDArray")
			return fail()
		}
		if f.FDArray, ok = f.ParseIndex("FDArray", fdo); !ok {
			return fail()
		}
		if f.FDArray.Count == 0 || f.FDArray.Count > 256 {
			f.prob("fdarray:count", "FDArray has %d entries", f.FDArray.Count)
			if f.FDArray.Count == 0 {
				return fail()
			}
		}
		for i, blob := range f.FDArray.Data {
			fdict, ok := f.ParseDict(fmt.Sprintf("Font[%d]", i), blob)
			if !ok {
				return fail()
			}
			fd := f.parsePrivate(fmt.Sprintf("Private[%d]", i), fdict)
			if fd == nil {
				return fail()
			}
			fd.FontDict = fdict
			f.FDs = append(f.FDs, fd)
		}
		fso, has := f.Top.Int(OpFDSelect)
		if !has {
			f.prob("top:no-fdselect", "CID-keyed font without FDSelect")
			return fail()
		}
		if !f.parseFDSelect(fso) {
			return fail()
		}
	} else {
		fd := f.parsePrivate("Private", f.Top)
		if fd == nil {
			return fail()
		}
		f.FDs = []*FD{fd}
		f.FDSelect = make([]int, f.NGlyphs)
		// encoding
		f.EncodingOffset = int(f.Top.Num(OpEncoding, 0))
		if v, ok := f.Top.Get(OpEncoding); ok && (len(v) != 1 || !v[0].IsInt()) {
			f.prob("top:encoding-operand", "Encoding operand is not a single integer")
		}
		switch {
		case f.EncodingOffset == 0 || f.EncodingOffset == 1:
			tab := &StandardEncodingSID
			if f.EncodingOffset == 1 {
				tab = &ExpertEncodingSID
			}
			if f.Charset != nil {
				sid2gid := map[int]int{}
				for gid, sid := range f.Charset {
					if _, dup := sid2gid[sid]; !dup {
						sid2gid[sid] = gid
					}
				}
				for code, sid := range tab {
					if sid != 0 {
						f.Code2GID[code] = sid2gid[sid]
					}
				}
			}
		default:
			if !f.parseEncoding(f.EncodingOffset) {
				return fail()
			}
		}
	}
	return f, nil
}

func (f *Font) parseCharset(pos int) bool {
	b := f.Raw
	if pos >= len(b) {
		f.prob("charset:out-of-file", "charset offset %d outside the file", pos)
		return false
	}
	format := int(b[pos])
	f.CharsetFormat = format
	cs := make([]int, 1, f.NGlyphs)
	p := pos + 1
	switch format {
	case 0:
		if p+2*(f.NGlyphs-1) > len(b) {
			f.prob("charset:truncated", "format 0 charset for %d glyphs exceeds the file", f.NGlyphs)
			return false
		}
		for i := 1; i < f.NGlyphs; i++ {
			cs = append(cs, int(b[p])<<8|int(b[p+1]))
			p += 2
		}
	case 1, 2:
		for len(cs) < f.NGlyphs {
			need := 3
			if format == 2 {
				need = 4
			}
			if p+need > len(b) {
				f.prob("charset:truncated", "format %d charset exceeds the file", format)
				return false
			}
			first := int(b[p])<<8 | int(b[p+1])
			nLeft := int(b[p+2])
			if format == 2 {
				nLeft = nLeft<<8 | int(b[p+3])
			}
			p += need
			f.CharsetRanges++
			if len(cs)+nLeft+1 > f.NGlyphs {
				f.prob("charset:range-overshoots", "format %d charset: range (%d, nLeft %d) covers more than the %d glyphs", format, first, nLeft, f.NGlyphs)
				return false
			}
			if first+nLeft > 0xFFFF {
				f.prob("charset:sid-overflow", "format %d charset: range (%d, nLeft %d) exceeds 65535", format, first, nLeft)
			}
			for j := 0; j <= nLeft; j++ {
				cs = append(cs, first+j)
			}
		}
	default:
		f.prob("charset:format", "charset format %d", format)
		return false
	}
	f.Charset = cs
	f.section("charset", pos, p)
	return true
}

func (f *Font) parseEncoding(pos int) bool {
	b := f.Raw
	if pos+2 > len(b) {
		f.prob("encoding:out-of-file", "Encoding offset %d outside the file", pos)
		return false
	}
	fb := int(b[pos])
	f.EncodingFormat = fb & 0x7f
	f.EncodingSuppl = fb&0x80 != 0
	p := pos + 1
	gid := 1
	assign := func(code int) {
		if gid >= f.NGlyphs {
			f.prob("encoding:too-many-codes", "encoding assigns a code to glyph %d of %d", gid, f.NGlyphs)
		} else if f.Code2GID[code] != 0 {
			f.prob("encoding:code-twice", "code %d assigned twice by the main encoding", code)
		} else {
			f.Code2GID[code] = gid
		}
		gid++
	}
	switch f.EncodingFormat {
	case 0:
		n := int(b[p])
		p++
		f.EncodingNCodes = n
		if p+n > len(b) {
			f.prob("encoding:truncated", "format 0 encoding with %d codes exceeds the file", n)
			return false
		}
		for i := 0; i < n; i++ {
			assign(int(b[p]))
			p++
		}
	case 1:
		n := int(b[p])
		p++
		f.EncodingNRanges = n
		if p+2*n > len(b) {
			f.prob("encoding:truncated", "format 1 encoding with %d ranges exceeds the file", n)
			return false
		}
		for i := 0; i < n; i++ {
			first, nLeft := int(b[p]), int(b[p+1])
			p += 2
			if first+nLeft > 255 {
				f.prob("encoding:range-overflow", "format 1 range (%d, nLeft %d) exceeds code 255", first, nLeft)
				return false
			}
			for c := first; c <= first+nLeft; c++ {
				assign(c)
				f.EncodingNCodes++
			}
		}
	default:
		f.prob("encoding:format", "encoding format byte %#x", fb)
		return false
	}
	if f.EncodingSuppl {
		if p >= len(b) {
			f.prob("encoding:truncated", "supplement count outside the file")
			return false
		}
		n := int(b[p])
		p++
		f.NSups = n
		if n == 0 {
			f.prob("encoding:empty-supplement", "supplement bit set with nSups = 0")
		}
		if p+3*n > len(b) {
			f.prob("encoding:truncated", "%d supplements exceed the file", n)
			return false
		}
		for i := 0; i < n; i++ {
			code := int(b[p])
			sid := int(b[p+1])<<8 | int(b[p+2])
			p += 3
			g := -1
			for j, s := range f.Charset {
				if s == sid {
					g = j
					break
				}
			}
			switch {
			case g < 0:
				f.prob("encoding:supplement-sid", "supplement (code %d, SID %d): no glyph with that SID", code, sid)
			case f.Code2GID[code] != 0:
				f.prob("encoding:code-twice", "supplement code %d is already encoded", code)
			default:
				f.Code2GID[code] = g
			}
		}
	}
	f.section("Encoding", pos, p)
	return true
}

func (f *Font) parseFDSelect(pos int) bool {
	b := f.Raw
	if pos < 0 || pos >= len(b) {
		f.prob("fdselect:out-of-file", "FDSelect offset %d outside the file", pos)
		return false
	}
	format := int(b[pos])
	f.FDSelectFormat = format
	p := pos + 1
	sel := make([]int, f.NGlyphs)
	switch format {
	case 0:
		if p+f.NGlyphs > len(b) {
			f.prob("fdselect:truncated", "format 0 FDSelect exceeds the file")
			return false
		}
		for i := range sel {
			sel[i] = int(b[p])
			p++
		}
	case 3:
		if p+2 > len(b) {
			f.prob("fdselect:truncated", "format 3 FDSelect exceeds the file")
			return false
		}
		n := int(b[p])<<8 | int(b[p+1])
		p += 2
		f.FDSelectRanges = n
		if p+3*n+2 > len(b) {
			f.prob("fdselect:truncated", "format 3 FDSelect with %d ranges exceeds the file", n)
			return false
		}
		if n == 0 {
			f.prob("fdselect:no-ranges", "format 3 FDSelect without ranges")
			return false
		}
		firsts := make([]int, n+1)
		fds := make([]int, n)
		for i := 0; i < n; i++ {
			firsts[i] = int(b[p])<<8 | int(b[p+1])
			fds[i] = int(b[p+2])
			p += 3
		}
		firsts[n] = int(b[p])<<8 | int(b[p+1])
		p += 2
		if firsts[0] != 0 {
			f.prob("fdselect:first-range", "first range starts at glyph %d", firsts[0])
			return false
		}
		if firsts[n] != f.NGlyphs {
			f.prob("fdselect:sentinel", "sentinel %d, number of glyphs %d", firsts[n], f.NGlyphs)
			return false
		}
		for i := 0; i < n; i++ {
			if firsts[i+1] <= firsts[i] {
				f.prob("fdselect:ranges-not-increasing", "range %d starts at %d, next at %d", i, firsts[i], firsts[i+1])
				return false
			}
			for g := firsts[i]; g < firsts[i+1]; g++ {
				sel[g] = fds[i]
			}
		}
	default:
		f.prob("fdselect:format", "FDSelect format %d", format)
		return false
	}
	for g, fd := range sel {
		if fd >= len(f.FDs) {
			f.prob("fdselect:fd-out-of-range", "glyph %d selects FD %d of %d", g, fd, len(f.FDs))
			return false
		}
	}
	f.FDSelect = sel
	f.section("FDSelect", pos, p)
	return true
}

// parsePrivate follows the Private operator of d.
func (f *Font) parsePrivate(name string, d *Dict) *FD {
	v, ok := d.Get(OpPrivate)
	if !ok || len(v) != 2 || !v[0].IsInt() || !v[1].IsInt() {
		f.prob("private:operand", "%s: Private operator missing or malformed", name)
		return nil
	}
	size, offs := int(v[0].Int), int(v[1].Int)
	if size < 0 || offs < 0 || offs+size > len(f.Raw) {
		f.prob("private:out-of-file", "%s: Private DICT (size %d, offset %d) outside the file (%d bytes)", name, size, offs, len(f.Raw))
		return nil
	}
	fd := &FD{PrivOffset: offs, PrivSize: size}
	f.section(name+" DICT", offs, offs+size)
	fd.Private, ok = f.ParseDict(name, f.Raw[offs:offs+size])
	if !ok {
		return nil
	}
	fd.DefaultWidthX = fd.Private.Num(OpDefaultWidthX, 0)
	fd.NominalWidthX = fd.Private.Num(OpNominalWidthX, 0)
	if sv, has := fd.Private.Get(OpSubrs); has {
		if len(sv) != 1 || !sv[0].IsInt() {
			f.prob("private:subrs-operand", "%s: Subrs operand is not a single integer", name)
			return nil
		}
		fd.SubrsOffset = int(sv[0].Int)
		ix, ok := f.ParseIndex(name+" Subrs", offs+fd.SubrsOffset)
		if !ok {
			return nil
		}
		fd.Subrs = ix
	}
	return fd
}

// Tiling checks how the interpreted sections cover the file.  It returns
// the overlaps and gaps (as human-readable strings).
func (f *Font) Tiling() (overlaps, gaps []string) {
	// identical ranges referenced twice (shared Subrs, shared Private) are one section
	type key struct{ s, e int }
	seen := map[key]bool{}
	var ss []Section
	for _, s := range f.Sections {
		k := key{s.Start, s.End}
		if seen[k] || s.Start == s.End {
			continue
		}
		seen[k] = true
		ss = append(ss, s)
	}
	sort.Slice(ss, func(i, j int) bool {
		if ss[i].Start != ss[j].Start {
			return ss[i].Start < ss[j].Start
		}
		return ss[i].End < ss[j].End
	})
	pos := 0
	prev := "start of file"
	for _, s := range ss {
		if s.Start < pos {
			overlaps = append(overlaps, fmt.Sprintf("%s [%d,%d) overlaps %s (ends at %d)", s.Name, s.Start, s.End, prev, pos))
		} else if s.Start > pos {
			gaps = append(gaps, fmt.Sprintf("%d unreferenced bytes [%d,%d) between %s and %s", s.Start-pos, pos, s.Start, prev, s.Name))
		}
		if s.End > pos {
			pos = s.End
			prev = s.Name
		}
	}
	if pos < len(f.Raw) {
		gaps = append(gaps, fmt.Sprintf("%d unreferenced bytes after %s", len(f.Raw)-pos, prev))
	}
	return
}
