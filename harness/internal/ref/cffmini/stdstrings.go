package cffmini

// StdStrings are the 391 standard strings of Adobe TN5176, Appendix A
// (SID 0 … 390).
var StdStrings = [...]string{
	".notdef", "space", "exclam", "quotedbl", "numbersign", "dollar", "percent", "ampersand", "quoteright", "parenleft", // 0-9
	"parenright", "asterisk", "plus", "comma", "hyphen", "period", "slash", "zero", "one", "two", // 10-19
	"three", "four", "five", "six", "seven", "eight", "nine", "colon", "semicolon", "less", // 20-29
	"equal", "greater", "question", "at", "A", "B", "C", "D", "E", "F", // 30-39
	"G", "H", "I", "J", "K", "L", "M", "N", "O", "P", // 40-49
	"Q", "R", "S", "T", "U", "V", "W", "X", "Y", "Z", // 50-59
	"bracketleft", "backslash", "bracketright", "asciicircum", "underscore", "quoteleft", "a", "b", "c", "d", // 60-69
	"e", "f", "g", "h", "i", "j", "k", "l", "m", "n", // 70-79
	"o", "p", "q", "r", "s", "t", "u", "v", "w", "x", // 80-89
	"y", "z", "braceleft", "bar", "braceright", "asciitilde", "exclamdown", "cent", "sterling", "fraction", // 90-99
	"yen", "florin", "section", "currency", "quotesingle", "quotedblleft", "guillemotleft", "guilsinglleft", "guilsinglright", "fi", // 100-109
	"fl", "endash", "dagger", "daggerdbl", "periodcentered", "paragraph", "bullet", "quotesinglbase", "quotedblbase", "quotedblright", // 110-119
	"guillemotright", "ellipsis", "perthousand", "questiondown", "grave", "acute", "circumflex", "tilde", "macron", "breve", // 120-129
	"dotaccent", "dieresis", "ring", "cedilla", "hungarumlaut", "ogonek", "caron", "emdash", "AE", "ordfeminine", // 130-139
	"Lslash", "Oslash", "OE", "ordmasculine", "ae", "dotlessi", "lslash", "oslash", "oe", "germandbls", // 140-149
	"onesuperior", "logicalnot", "mu", "trademark", "Eth", "onehalf", "plusminus", "Thorn", "onequarter", "divide", // 150-159
	"brokenbar", "degree", "thorn", "threequarters", "twosuperior", "registered", "minus", "eth", "multiply", "threesuperior", // 160-169
	"copyright", "Aacute", "Acircumflex", "Adieresis", "Agrave", "Aring", "Atilde", "Ccedilla", "Eacute", "Ecircumflex", // 170-179
	"Edieresis", "Egrave", "Iacute", "Icircumflex", "Idieresis", "Igrave", "Ntilde", "Oacute", "Ocircumflex", "Odieresis", // 180-189
	"Ograve", "Otilde", "Scaron", "Uacute", "Ucircumflex", "Udieresis", "Ugrave", "Yacute", "Ydieresis", "Zcaron", // 190-199
	"aacute", "acircumflex", "adieresis", "agrave", "aring", "atilde", "ccedilla", "eacute", "ecircumflex", "edieresis", // 200-209
	"egrave", "iacute", "icircumflex", "idieresis", "igrave", "ntilde", "oacute", "ocircumflex", "odieresis", "ograve", // 210-219
	"otilde", "scaron", "uacute", "ucircumflex", "udieresis", "ugrave", "yacute", "ydieresis", "zcaron", "exclamsmall", // 220-229
	"Hungarumlautsmall", "dollaroldstyle", "dollarsuperior", "ampersandsmall", "Acutesmall", "parenleftsuperior", "parenrightsuperior", "twodotenleader", "onedotenleader", "zerooldstyle", // 230-239
	"oneoldstyle", "twooldstyle", "threeoldstyle", "fouroldstyle", "fiveoldstyle", "sixoldstyle", "sevenoldstyle", "eightoldstyle", "nineoldstyle", "commasuperior", // 240-249
	"threequartersemdash", "periodsuperior", "questionsmall", "asuperior", "bsuperior", "centsuperior", "dsuperior", "esuperior", "isuperior", "lsuperior", // 250-259
	"msuperior", "nsuperior", "osuperior", "rsuperior", "ssuperior", "tsuperior", "ff", "ffi", "ffl", "parenleftinferior", // 260-269
	"parenrightinferior", "Circumflexsmall", "hyphensuperior", "Gravesmall", "Asmall", "Bsmall", "Csmall", "Dsmall", "Esmall", "Fsmall", // 270-279
	"Gsmall", "Hsmall", "Ismall", "Jsmall", "Ksmall", "Lsmall", "Msmall", "Nsmall", "Osmall", "Psmall", // 280-289
	"Qsmall", "Rsmall", "Ssmall", "Tsmall", "Usmall", "Vsmall", "Wsmall", "Xsmall", "Ysmall", "Zsmall", // 290-299
	"colonmonetary", "onefitted", "rupiah", "Tildesmall", "exclamdownsmall", "centoldstyle", "Lslashsmall", "Scaronsmall", "Zcaronsmall", "Dieresissmall", // 300-309
	"Brevesmall", "Caronsmall", "Dotaccentsmall", "Macronsmall", "figuredash", "hypheninferior", "Ogoneksmall", "Ringsmall", "Cedillasmall", "questiondownsmall", // 310-319
	"oneeighth", "threeeighths", "fiveeighths", "seveneighths", "onethird", "twothirds", "zerosuperior", "foursuperior", "fivesuperior", "sixsuperior", // 320-329
	"sevensuperior", "eightsuperior", "ninesuperior", "zeroinferior", "oneinferior", "twoinferior", "threeinferior", "fourinferior", "fiveinferior", "sixinferior", // 330-339
	"seveninferior", "eightinferior", "nineinferior", "centinferior", "dollarinferior", "periodinferior", "commainferior", "Agravesmall", "Aacutesmall", "Acircumflexsmall", // 340-349
	"Atildesmall", "Adieresissmall", "Aringsmall", "AEsmall", "Ccedillasmall", "Egravesmall", "Eacutesmall", "Ecircumflexsmall", "Edieresissmall", "Igravesmall", // 350-359
	"Iacutesmall", "Icircumflexsmall", "Idieresissmall", "Ethsmall", "Ntildesmall", "Ogravesmall", "Oacutesmall", "Ocircumflexsmall", "Otildesmall", "Odieresissmall", // 360-369
	"OEsmall", "Oslashsmall", "Ugravesmall", "Uacutesmall", "Ucircumflexsmall", "Udieresissmall", "Yacutesmall", "Thornsmall", "Ydieresissmall", "001.000", // 370-379
	"001.001", "001.002", "001.003", "Black", "Bold", "Book", "Light", "Medium", "Regular", "Roman", // 380-389
	"Semibold", // 390
}

// NStd is the number of standard strings.
const NStd = len(StdStrings)

// StandardEncodingSID maps a character code to the SID of the glyph in the
// predefined Standard Encoding (TN5176 Appendix B); 0 = not encoded.
var StandardEncodingSID [256]int

// ExpertEncodingSID is the predefined Expert Encoding (TN5176 Appendix B).
var ExpertEncodingSID = [256]int{
	0, 0, 0, 0, 0, 0, 0, 0, 0, 0, 0, 0, 0, 0, 0, 0,
	0, 0, 0, 0, 0, 0, 0, 0, 0, 0, 0, 0, 0, 0, 0, 0,
	1, 229, 230, 0, 231, 232, 233, 234, 235, 236, 237, 238, 13, 14, 15, 99,
	239, 240, 241, 242, 243, 244, 245, 246, 247, 248, 27, 28, 249, 250, 251, 252,
	0, 253, 254, 255, 256, 257, 0, 0, 0, 258, 0, 0, 259, 260, 261, 262,
	0, 0, 263, 264, 265, 0, 266, 109, 110, 267, 268, 269, 0, 270, 271, 272,
	273, 274, 275, 276, 277, 278, 279, 280, 281, 282, 283, 284, 285, 286, 287, 288,
	289, 290, 291, 292, 293, 294, 295, 296, 297, 298, 299, 300, 301, 302, 303, 0,
	0, 0, 0, 0, 0, 0, 0, 0, 0, 0, 0, 0, 0, 0, 0, 0,
	0, 0, 0, 0, 0, 0, 0, 0, 0, 0, 0, 0, 0, 0, 0, 0,
	0, 304, 305, 306, 0, 0, 307, 308, 309, 310, 311, 0, 312, 0, 0, 313,
	0, 0, 314, 315, 0, 0, 316, 317, 318, 0, 0, 0, 158, 155, 163, 319,
	320, 321, 322, 323, 324, 325, 0, 0, 326, 150, 164, 169, 327, 328, 329, 330,
	331, 332, 333, 334, 335, 336, 337, 338, 339, 340, 341, 342, 343, 344, 345, 346,
	347, 348, 349, 350, 351, 352, 353, 354, 355, 356, 357, 358, 359, 360, 361, 362,
	363, 364, 365, 366, 367, 368, 369, 370, 371, 372, 373, 374, 375, 376, 377, 378,
}

func init() {
	set := func(code, n, sid int) {
		for i := 0; i < n; i++ {
			StandardEncodingSID[code+i] = sid + i
		}
	}
	set(32, 95, 1)   // space … asciitilde
	set(161, 15, 96) // exclamdown … fl
	set(177, 4, 111) // endash dagger daggerdbl periodcentered
	set(182, 8, 115) // paragraph … perthousand
	set(191, 1, 123) // questiondown
	set(193, 8, 124) // grave … dieresis
	set(202, 2, 132) // ring cedilla
	set(205, 4, 134) // hungarumlaut ogonek caron emdash
	set(225, 1, 138) // AE
	set(227, 1, 139) // ordfeminine
	set(232, 4, 140) // Lslash Oslash OE ordmasculine
	set(241, 1, 144) // ae
	set(245, 1, 145) // dotlessi
	set(248, 4, 146) // lslash oslash oe germandbls
}

// Predefined charsets (TN5176 Appendix C), as SIDs per glyph index.
var (
	ISOAdobeCharset     = sidRanges(0, 228)
	ExpertCharset       = sidRanges(0, 1, 229, 238, 13, 15, 99, 99, 239, 248, 27, 28, 249, 266, 109, 110, 267, 318, 158, 158, 155, 155, 163, 163, 319, 326, 150, 150, 164, 164, 169, 169, 327, 378)
	ExpertSubsetCharset = sidRanges(0, 1, 231, 232, 235, 238, 13, 15, 99, 99, 239, 248, 27, 28, 249, 251, 253, 266, 109, 110, 267, 270, 272, 272, 300, 302, 305, 305, 314, 315, 158, 158, 155, 155, 163, 163, 320, 326, 150, 150, 164, 164, 169, 169, 327, 346)
)

func sidRanges(r ...int) []int {
	var out []int
	for i := 0; i+1 < len(r); i += 2 {
		for s := r[i]; s <= r[i+1]; s++ {
			out = append(out, s)
		}
	}
	return out
}
