package cffmini

import (
	"fmt"
	"strings"
)

// Num is a DICT number to be written.
type Num struct {
	IsReal bool
	Int    int
	Real   string // decimal text, e.g. "-2.25", "5E-1", ".5E3"
	Form   int    // integer form to use (0 = shortest)
}

func IntNum(v int) Num        { return Num{Int: v} }
func RealNum(text string) Num { return Num{IsReal: true, Real: text} }

// EncodeInt encodes a DICT integer.  form 0 selects the shortest form;
// FormInt3 / FormInt5 force a longer form where the value fits.
func EncodeInt(v int, form int) []byte {
	if form == 0 {
		switch {
		case v >= -107 && v <= 107:
			form = FormInt1
		case v >= -1131 && v <= 1131:
			form = FormInt2
		case v >= -32768 && v <= 32767:
			form = FormInt3
		default:
			form = FormInt5
		}
	}
	switch form {
	case FormInt1:
		return []byte{byte(v + 139)}
	case FormInt2:
		if v > 0 {
			w := v - 108
			return []byte{byte(w>>8) + 247, byte(w)}
		}
		w := -v - 108
		return []byte{byte(w>>8) + 251, byte(w)}
	case FormInt3:
		return []byte{28, byte(v >> 8), byte(v)}
	default:
		return []byte{29, byte(v >> 24), byte(v >> 16), byte(v >> 8), byte(v)}
	}
}

// EncodeReal encodes the decimal text of a real number as nibbles.
func EncodeReal(text string) []byte {
	var nib []byte
	t := strings.ToUpper(text)
	for i := 0; i < len(t); i++ {
		c := t[i]
		switch {
		case c >= '0' && c <= '9':
			nib = append(nib, c-'0')
		case c == '.':
			nib = append(nib, 0xa)
		case c == 'E':
			if i+1 < len(t) && t[i+1] == '-' {
				nib = append(nib, 0xc)
				i++
			} else {
				nib = append(nib, 0xb)
				if i+1 < len(t) && t[i+1] == '+' {
					i++
				}
			}
		case c == '-':
			nib = append(nib, 0xe)
		default:
			panic(fmt.Sprintf("cffmini: bad character %q in real %q", c, text))
		}
	}
	nib = append(nib, 0xf)
	if len(nib)%2 != 0 {
		nib = append(nib, 0xf)
	}
	out := []byte{30}
	for i := 0; i < len(nib); i += 2 {
		out = append(out, nib[i]<<4|nib[i+1])
	}
	return out
}

func (n Num) Bytes() []byte {
	if n.IsReal {
		return EncodeReal(n.Real)
	}
	return EncodeInt(n.Int, n.Form)
}

// EncodeOp encodes a DICT operator.
func EncodeOp(op int) []byte {
	if op >= 0x0c00 {
		return []byte{12, byte(op)}
	}
	return []byte{byte(op)}
}

// DictBuilder assembles DICT data.
type DictBuilder struct{ B []byte }

func (d *DictBuilder) Put(op int, nums ...Num) {
	for _, n := range nums {
		d.B = append(d.B, n.Bytes()...)
	}
	d.B = append(d.B, EncodeOp(op)...)
}

// BuildIndex writes an INDEX.  offSize 0 selects the minimal offset size.
func BuildIndex(items [][]byte, offSize int) []byte {
	n := len(items)
	if n == 0 {
		return []byte{0, 0}
	}
	total := 0
	for _, it := range items {
		total += len(it)
	}
	min := 1
	for total+1 >= 1<<(8*min) {
		min++
	}
	if offSize < min {
		offSize = min
	}
	out := make([]byte, 0, 3+(n+1)*offSize+total)
	out = append(out, byte(n>>8), byte(n), byte(offSize))
	put := func(v int) {
		for j := offSize - 1; j >= 0; j-- {
			out = append(out, byte(v>>(8*j)))
		}
	}
	pos := 1
	put(pos)
	for _, it := range items {
		pos += len(it)
		put(pos)
	}
	for _, it := range items {
		out = append(out, it...)
	}
	return out
}

// WFD describes one font dictionary of a font to be written.
type WFD struct {
	Subrs         [][]byte // local subroutines
	NoSubrsOp     bool     // omit the Subrs operator (only sensible with no subroutines)
	DefaultWidthX *Num
	NominalWidthX *Num
	SubrsGap      int    // unreferenced bytes between the Private DICT and its Subrs INDEX
	PrivateExtra  []byte // encoded DICT entries placed in front of the width operators
	SubrsFirst    bool   // place the Subrs operator before the width operators
}

// WFont describes a font to be written around given charstrings.
type WFont struct {
	FontName       string
	CharStrings    [][]byte
	GSubrs         [][]byte
	CID            bool
	FDs            []WFD // exactly one for a simple font
	FDSelect       []int // per glyph (CID only)
	FDSelectFormat int   // 0 or 3
	CharsetFormat  int   // 0, 1 or 2
	PredefCharset  int   // 0 = write a charset; 1, 2, 3 = use the predefined charset 0, 1, 2 (simple fonts)
	OmitCharsetOp  bool  // with PredefCharset 1: rely on the default value 0 of the charset operator
	IndexOffSize   int   // offSize for all INDEXes (0 = minimal)
}

// Bytes assembles the CFF file.  Layout: Header, Name INDEX, Top DICT
// INDEX, String INDEX, Global Subr INDEX, charset, [FDSelect], CharStrings
// INDEX, [Font DICT INDEX], then per FD the Private DICT followed by its
// local Subr INDEX.  All offsets in DICTs use the 5-byte integer form, so
// that the sizes are known before the offsets are.
func (w *WFont) Bytes() []byte {
	n := len(w.CharStrings)
	if n == 0 || len(w.FDs) == 0 || (!w.CID && len(w.FDs) != 1) {
		panic("cffmini: bad WFont")
	}
	var custom [][]byte
	sidOf := func(s string) int {
		for i, t := range StdStrings {
			if t == s {
				return i
			}
		}
		for i, t := range custom {
			if string(t) == s {
				return NStd + i
			}
		}
		custom = append(custom, []byte(s))
		return NStd + len(custom) - 1
	}
	rosR, rosO := 0, 0
	if w.CID {
		rosR, rosO = sidOf("Adobe"), sidOf("Identity")
	} else if n > NStd {
		// glyph names: SIDs 1..n-1 in order; beyond the standard strings use custom names
		base := NStd + len(custom)
		if base != NStd {
			panic("cffmini: custom strings before glyph names")
		}
		for i := NStd; i < n; i++ {
			custom = append(custom, []byte(fmt.Sprintf("g%d", i)))
		}
	}

	// charset: glyph i has SID/CID i
	var charset []byte
	switch w.CharsetFormat {
	case 0:
		charset = append(charset, 0)
		for i := 1; i < n; i++ {
			charset = append(charset, byte(i>>8), byte(i))
		}
	case 1:
		charset = append(charset, 1)
		for i := 1; i < n; i += 256 {
			left := n - 1 - i
			if left > 255 {
				left = 255
			}
			charset = append(charset, byte(i>>8), byte(i), byte(left))
		}
	default:
		charset = append(charset, 2)
		if n > 1 {
			charset = append(charset, 0, 1, byte((n-2)>>8), byte(n-2))
		}
	}

	if w.PredefCharset > 0 {
		charset = nil
	}

	var fdsel []byte
	if w.CID {
		if len(w.FDSelect) != n {
			panic("cffmini: FDSelect length")
		}
		if w.FDSelectFormat == 0 {
			fdsel = append(fdsel, 0)
			for _, fd := range w.FDSelect {
				fdsel = append(fdsel, byte(fd))
			}
		} else {
			var rs []byte
			cnt := 0
			for i, fd := range w.FDSelect {
				if i == 0 || fd != w.FDSelect[i-1] {
					rs = append(rs, byte(i>>8), byte(i), byte(fd))
					cnt++
				}
			}
			fdsel = append(fdsel, 3, byte(cnt>>8), byte(cnt))
			fdsel = append(fdsel, rs...)
			fdsel = append(fdsel, byte(n>>8), byte(n))
		}
	}

	off5 := func(v int) Num { return Num{Int: v, Form: FormInt5} }

	nameIdx := BuildIndex([][]byte{[]byte(w.FontName)}, w.IndexOffSize)
	stringIdx := BuildIndex(custom, w.IndexOffSize)
	gsubrIdx := BuildIndex(w.GSubrs, w.IndexOffSize)
	csIdx := BuildIndex(w.CharStrings, w.IndexOffSize)

	// private dicts (sizes do not depend on positions)
	privs := make([][]byte, len(w.FDs))
	subrIdx := make([][]byte, len(w.FDs))
	for i, fd := range w.FDs {
		build := func(subrsOff int) []byte {
			var d DictBuilder
			d.B = append(d.B, fd.PrivateExtra...)
			putSubrs := func() {
				if !fd.NoSubrsOp {
					d.Put(OpSubrs, off5(subrsOff))
				}
			}
			if fd.SubrsFirst {
				putSubrs()
			}
			if fd.DefaultWidthX != nil {
				d.Put(OpDefaultWidthX, *fd.DefaultWidthX)
			}
			if fd.NominalWidthX != nil {
				d.Put(OpNominalWidthX, *fd.NominalWidthX)
			}
			if !fd.SubrsFirst {
				putSubrs()
			}
			return d.B
		}
		size := len(build(0))
		privs[i] = build(size + fd.SubrsGap)
		if !fd.NoSubrsOp {
			subrIdx[i] = BuildIndex(fd.Subrs, w.IndexOffSize)
		}
	}

	topSize := func(build func(pos map[string]int) []byte) int {
		return len(build(map[string]int{}))
	}
	buildTop := func(pos map[string]int) []byte {
		var d DictBuilder
		if w.CID {
			d.Put(OpROS, IntNum(rosR), IntNum(rosO), IntNum(0))
			d.Put(OpCIDCount, IntNum(n))
		}
		if w.PredefCharset == 0 {
			d.Put(OpCharset, off5(pos["charset"]))
		} else if !w.OmitCharsetOp || w.PredefCharset != 1 {
			d.Put(OpCharset, IntNum(w.PredefCharset-1))
		}
		d.Put(OpCharStrings, off5(pos["charstrings"]))
		if w.CID {
			d.Put(OpFDArray, off5(pos["fdarray"]))
			d.Put(OpFDSelect, off5(pos["fdselect"]))
		} else {
			d.Put(OpPrivate, off5(len(privs[0])), off5(pos["private0"]))
		}
		return d.B
	}
	buildFDArray := func(pos map[string]int) []byte {
		items := make([][]byte, len(w.FDs))
		for i := range w.FDs {
			var d DictBuilder
			d.Put(OpPrivate, off5(len(privs[i])), off5(pos[fmt.Sprintf("private%d", i)]))
			items[i] = d.B
		}
		return BuildIndex(items, w.IndexOffSize)
	}

	pos := map[string]int{}
	p := 4 + len(nameIdx)
	p += len(BuildIndex([][]byte{make([]byte, topSize(buildTop))}, w.IndexOffSize))
	p += len(stringIdx) + len(gsubrIdx)
	pos["charset"] = p
	p += len(charset)
	if w.CID {
		pos["fdselect"] = p
		p += len(fdsel)
	}
	pos["charstrings"] = p
	p += len(csIdx)
	if w.CID {
		pos["fdarray"] = p
		p += len(buildFDArray(map[string]int{}))
	}
	for i, fd := range w.FDs {
		pos[fmt.Sprintf("private%d", i)] = p
		p += len(privs[i]) + fd.SubrsGap + len(subrIdx[i])
	}
	total := p

	offSize := byte(1)
	for total >= 1<<(8*int(offSize)) {
		offSize++
	}
	out := make([]byte, 0, total)
	out = append(out, 1, 0, 4, offSize)
	out = append(out, nameIdx...)
	out = append(out, BuildIndex([][]byte{buildTop(pos)}, w.IndexOffSize)...)
	out = append(out, stringIdx...)
	out = append(out, gsubrIdx...)
	out = append(out, charset...)
	if w.CID {
		out = append(out, fdsel...)
	}
	out = append(out, csIdx...)
	if w.CID {
		out = append(out, buildFDArray(pos)...)
	}
	for i, fd := range w.FDs {
		out = append(out, privs[i]...)
		for j := 0; j < fd.SubrsGap; j++ {
			out = append(out, 0xEE)
		}
		out = append(out, subrIdx[i]...)
	}
	if len(out) != total {
		panic(fmt.Sprintf("cffmini: layout error: %d != %d", len(out), total))
	}
	return out
}
