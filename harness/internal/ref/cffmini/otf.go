package cffmini

import (
	"encoding/binary"
	"sort"
)

// WrapOTF puts CFF data into a minimal OpenType container (tables CFF,
// OS/2, cmap, head, hhea, hmtx, maxp, post) that third-party sfnt readers
// accept.  The cmap maps nothing; glyphs are addressed by index.
func WrapOTF(cff []byte, numGlyphs int, unitsPerEm int) []byte {
	be := binary.BigEndian
	head := make([]byte, 54)
	be.PutUint32(head[0:], 0x00010000)
	be.PutUint32(head[12:], 0x5F0F3CF5)
	be.PutUint16(head[18:], uint16(unitsPerEm))
	hhea := make([]byte, 36)
	be.PutUint32(hhea[0:], 0x00010000)
	be.PutUint16(hhea[34:], 1)
	hmtx := make([]byte, 4+2*(numGlyphs-1))
	maxp := make([]byte, 6)
	be.PutUint32(maxp[0:], 0x00005000)
	be.PutUint16(maxp[4:], uint16(numGlyphs))
	post := make([]byte, 32)
	be.PutUint32(post[0:], 0x00030000)
	os2 := make([]byte, 96)
	be.PutUint16(os2[0:], 4)
	cmap := make([]byte, 4+8+262)
	be.PutUint16(cmap[2:], 1)
	be.PutUint16(cmap[4:], 1) // Macintosh
	be.PutUint16(cmap[6:], 0) // Roman
	be.PutUint32(cmap[8:], 12)
	be.PutUint16(cmap[12:], 0)   // format 0
	be.PutUint16(cmap[14:], 262) // length

	tables := map[string][]byte{"CFF ": cff, "OS/2": os2, "cmap": cmap, "head": head, "hhea": hhea, "hmtx": hmtx, "maxp": maxp, "post": post}
	var tags []string
	for t := range tables {
		tags = append(tags, t)
	}
	sort.Strings(tags)
	n := len(tags)
	out := make([]byte, 12+16*n)
	copy(out, "OTTO")
	be.PutUint16(out[4:], uint16(n))
	p2, lg := 1, 0
	for p2*2 <= n {
		p2 *= 2
		lg++
	}
	be.PutUint16(out[6:], uint16(16*p2))
	be.PutUint16(out[8:], uint16(lg))
	be.PutUint16(out[10:], uint16(16*n-16*p2))
	for i, t := range tags {
		b := tables[t]
		rec := out[12+16*i:]
		copy(rec, t)
		var sum uint32
		for j := 0; j < len(b); j += 4 {
			var w [4]byte
			copy(w[:], b[j:])
			sum += be.Uint32(w[:])
		}
		be.PutUint32(rec[4:], sum)
		be.PutUint32(rec[8:], uint32(len(out)))
		be.PutUint32(rec[12:], uint32(len(b)))
		out = append(out, b...)
		for len(out)%4 != 0 {
			out = append(out, 0)
		}
	}
	return out
}
