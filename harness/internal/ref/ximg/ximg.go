// Package ximg wraps golang.org/x/image/font/sfnt as a third-party opinion
// on complete font files: glyph count, units per em, character mapping,
// advance widths, glyph names and outlines.
//
// Outlines are taken at ppem = unitsPerEm (scale 1); coordinates are reported
// in 1/64 font units with the y axis pointing up again.
package ximg

import (
	"fmt"

	"golang.org/x/image/font"
	xsfnt "golang.org/x/image/font/sfnt"
	"golang.org/x/image/math/fixed"

	"verif/harness/internal/ref/glyfref"
)

type Font struct {
	F   *xsfnt.Font
	buf xsfnt.Buffer
	Upm int
}

func Parse(b []byte) (*Font, error) {
	f, err := xsfnt.Parse(b)
	if err != nil {
		return nil, err
	}
	return &Font{F: f, Upm: int(f.UnitsPerEm())}, nil
}

func (f *Font) NumGlyphs() int { return f.F.NumGlyphs() }

func (f *Font) GlyphIndex(r rune) (int, error) {
	g, err := f.F.GlyphIndex(&f.buf, r)
	return int(g), err
}

// Advance returns the advance width in font units (exact at scale 1).
func (f *Font) Advance(gid int) (int, error) {
	a, err := f.F.GlyphAdvance(&f.buf, xsfnt.GlyphIndex(gid), fixed.I(f.Upm), font.HintingNone)
	if err != nil {
		return 0, err
	}
	if a%64 != 0 {
		return 0, fmt.Errorf("ximg: advance %d not integral", a)
	}
	return int(a / 64), nil
}

func (f *Font) GlyphName(gid int) (string, error) {
	return f.F.GlyphName(&f.buf, xsfnt.GlyphIndex(gid))
}

// Seg is one outline segment: Op 'M', 'L', 'Q' or 'C'; coordinates in 1/64
// font units, y up.
type Seg struct {
	Op   byte
	X, Y [3]int64
}

func (s Seg) String() string {
	n := map[byte]int{'M': 1, 'L': 1, 'Q': 2, 'C': 3}[s.Op]
	out := string(s.Op)
	for i := 0; i < n; i++ {
		out += fmt.Sprintf(" (%g,%g)", float64(s.X[i])/64, float64(s.Y[i])/64)
	}
	return out
}

func (f *Font) Outline(gid int) ([]Seg, error) {
	segs, err := f.F.LoadGlyph(&f.buf, xsfnt.GlyphIndex(gid), fixed.I(f.Upm), nil)
	if err != nil {
		return nil, err
	}
	out := make([]Seg, len(segs))
	for i, s := range segs {
		var o Seg
		switch s.Op {
		case xsfnt.SegmentOpMoveTo:
			o.Op = 'M'
		case xsfnt.SegmentOpLineTo:
			o.Op = 'L'
		case xsfnt.SegmentOpQuadTo:
			o.Op = 'Q'
		case xsfnt.SegmentOpCubeTo:
			o.Op = 'C'
		}
		for j := 0; j < 3; j++ {
			o.X[j] = int64(s.Args[j].X)
			o.Y[j] = -int64(s.Args[j].Y)
		}
		n := map[byte]int{'M': 1, 'L': 1, 'Q': 2, 'C': 3}[o.Op]
		for j := n; j < 3; j++ {
			o.X[j], o.Y[j] = 0, 0
		}
		out[i] = o
	}
	return out, nil
}

// TTSegments converts TrueType contours (explicit points with on/off-curve
// flags) to segments by the usual convention: a contour starts at its first
// on-curve point (or, if the first two points are off-curve, at their
// midpoint), consecutive off-curve points imply an on-curve midpoint, and the
// contour is closed back to its start.  Implied midpoints are computed on the
// integer grid (truncating division), which is what x/image does before it
// scales; explicit points are exact.  (dx, dy) translates the contour.
func TTSegments(contours [][]glyfref.Point, dx, dy int) []Seg {
	var out []Seg
	type pt struct{ x, y int64 }
	mid := func(a, b pt) pt { return pt{(a.x + b.x) / 2, (a.y + b.y) / 2} }
	emit := func(op byte, ps ...pt) {
		s := Seg{Op: op}
		for i, p := range ps {
			s.X[i], s.Y[i] = (p.x+int64(dx))*64, (p.y+int64(dy))*64
		}
		out = append(out, s)
	}
	for _, c := range contours {
		if len(c) == 0 {
			continue
		}
		var firstOn, firstOff, lastOff pt
		haveFirstOn, haveFirstOff, haveLastOff := false, false, false
		for _, q := range c {
			// x/image negates y after scaling; midpoints are therefore taken
			// in the original (y up) orientation
			p := pt{int64(q.X), int64(q.Y)} // translated on emission, after midpoints
			switch {
			case !haveFirstOn:
				if q.OnCurve {
					firstOn, haveFirstOn = p, true
					emit('M', p)
				} else if !haveFirstOff {
					firstOff, haveFirstOff = p, true
				} else {
					firstOn, haveFirstOn = mid(firstOff, p), true
					lastOff, haveLastOff = p, true
					emit('M', firstOn)
				}
			case !haveLastOff:
				if !q.OnCurve {
					lastOff, haveLastOff = p, true
				} else {
					emit('L', p)
				}
			default:
				if !q.OnCurve {
					emit('Q', lastOff, mid(lastOff, p))
					lastOff = p
				} else {
					emit('Q', lastOff, p)
					haveLastOff = false
				}
			}
		}
		if !haveFirstOn {
			// a contour with a single off-curve point: nothing is drawn
			// before closing; conventions differ, callers skip such contours
			continue
		}
		switch {
		case !haveFirstOff && !haveLastOff:
			emit('L', firstOn)
		case !haveFirstOff && haveLastOff:
			emit('Q', lastOff, firstOn)
		case haveFirstOff && !haveLastOff:
			emit('Q', firstOff, firstOn)
		default:
			emit('Q', lastOff, mid(lastOff, firstOff))
			emit('Q', firstOff, firstOn)
		}
	}
	return out
}

// Degenerate reports contours whose conversion conventions differ between
// implementations (fewer than one on-curve start can be derived).
func Degenerate(contours [][]glyfref.Point) bool {
	for _, c := range contours {
		on := 0
		for _, p := range c {
			if p.OnCurve {
				on++
			}
		}
		if len(c) < 2 && on == 0 {
			return true
		}
	}
	return false
}

func SameSegs(a, b []Seg) bool {
	if len(a) != len(b) {
		return false
	}
	for i := range a {
		if a[i] != b[i] {
			return false
		}
	}
	return true
}

// Kern returns the kerning of the glyph pair in font units as x/image finds it
// in the GPOS table (PairPos formats 1 and 2 under a kern feature of the latn
// or DFLT script).  found is false if x/image reports ErrNotFound.
func (f *Font) Kern(a, b int) (kern int, found bool, err error) {
	v, err := f.F.Kern(&f.buf, xsfnt.GlyphIndex(a), xsfnt.GlyphIndex(b), fixed.I(f.Upm), font.HintingNone)
	if err == xsfnt.ErrNotFound {
		return 0, false, nil
	}
	if err != nil {
		return 0, false, err
	}
	if v%64 != 0 {
		return 0, false, fmt.Errorf("ximg: kern %d not integral", v)
	}
	return int(v / 64), true, nil
}

// VMetrics returns ascent, descent (positive below the baseline), line height,
// x height and cap height in font units as x/image derives them from hhea and
// OS/2 (exact at scale 1 for values below 2^25/upm).
func (f *Font) VMetrics() (ascent, descent, height, xHeight, capHeight int, err error) {
	m, err := f.F.Metrics(&f.buf, fixed.I(f.Upm), font.HintingNone)
	if err != nil {
		return 0, 0, 0, 0, 0, err
	}
	for _, v := range []fixed.Int26_6{m.Ascent, m.Descent, m.Height, m.XHeight, m.CapHeight} {
		if v%64 != 0 {
			return 0, 0, 0, 0, 0, fmt.Errorf("ximg: metric %d not integral", v)
		}
	}
	return int(m.Ascent / 64), int(m.Descent / 64), int(m.Height / 64), int(m.XHeight / 64), int(m.CapHeight / 64), nil
}

// Post returns x/image's view of the post table header (nil without table).
func (f *Font) Post() *xsfnt.PostTable { return f.F.PostTable() }

// Name returns the first name record x/image can decode for the id
// (Macintosh Roman records come first, then Windows UCS-2).
func (f *Font) Name(id int) (string, bool, error) {
	s, err := f.F.Name(&f.buf, xsfnt.NameID(id))
	if err == xsfnt.ErrNotFound {
		return "", false, nil
	}
	return s, err == nil, err
}
