package cmapref

import (
	"os"
	"path/filepath"
	"testing"

	"verif/harness/internal/ref/sfntwalk"
)

func corpus(t *testing.T) map[string][]byte {
	files, _ := filepath.Glob("../../../../corpus/*.ttf")
	if len(files) == 0 {
		t.Skip("corpus not found")
	}
	out := map[string][]byte{}
	for _, f := range files {
		b, err := os.ReadFile(f)
		if err != nil {
			t.Fatal(err)
		}
		out[filepath.Base(f)] = b
	}
	return out
}

// Every subtable of the corpus fonts decodes without problems, and writing
// it again with the raw encoders gives the same function.
func TestCorpus(t *testing.T) {
	formats := map[uint16]int{}
	for name, data := range corpus(t) {
		f, _ := sfntwalk.Walk(data)
		ct := f.Get("cmap")
		if ct == nil {
			t.Fatalf("%s: no cmap", name)
		}
		tab := DecodeTable(ct.Data)
		if len(tab.Problems) > 0 {
			t.Errorf("%s: header problems %v", name, tab.Problems)
		}
		for _, r := range tab.Records {
			if r.Data == nil {
				continue
			}
			s, err := Decode(r.Data)
			if err != nil {
				t.Logf("%s: (%d,%d) format %d: %v", name, r.PlatformID, r.EncodingID, r.Format, err)
				continue
			}
			if len(s.Problems) > 0 {
				t.Errorf("%s: (%d,%d) format %d problems %v", name, r.PlatformID, r.EncodingID, r.Format, s.Problems)
			}
			formats[s.Format]++
			var again []byte
			switch s.Format {
			case 0:
				var g [256]byte
				copy(g[:], s.Bytes)
				again = EncodeFormat0(uint16(s.Language), &g)
			case 4:
				m := map[uint16]uint16{}
				s.Each(func(c, g uint32) { m[uint16(c)] = uint16(g) })
				var ok bool
				again, ok = SimpleFormat4(uint16(s.Language), m)
				if !ok {
					t.Fatalf("%s: SimpleFormat4 failed", name)
				}
			case 6:
				again = EncodeFormat6(uint16(s.Language), s.FirstCode, s.Glyphs)
			case 12:
				again = EncodeFormat12(s.Language, s.Groups)
			}
			s2, err := Decode(again)
			if err != nil || len(s2.Problems) > 0 {
				t.Fatalf("%s: re-encoded format %d: %v %v", name, s.Format, err, s2)
			}
			for c := uint32(0); c < 0x11000; c++ {
				if a, b := s.Lookup(c), s2.Lookup(c); a != b {
					t.Fatalf("%s: format %d code %#x: %d vs %d", name, s.Format, c, a, b)
				}
			}
		}
	}
	for _, f := range []uint16{0, 4, 6, 12} {
		if formats[f] == 0 {
			t.Errorf("format %d not seen in the corpus", f)
		}
	}
}

// Hand-made format 4 subtable from the specification's worked example:
// characters 10–20, 30–90, 153–480 mapped with deltas.
func TestSpecExample(t *testing.T) {
	f := &Format4{Segs: []Seg4{
		{Start: 10, End: 20, Delta: 65535 - 8, Slot: -1},    // -9
		{Start: 30, End: 90, Delta: 65535 - 17, Slot: -1},   // -18
		{Start: 153, End: 480, Delta: 65535 - 26, Slot: -1}, // -27
		{Start: 0xFFFF, End: 0xFFFF, Delta: 1, Slot: -1},
	}}
	b, err := f.Encode()
	if err != nil {
		t.Fatal(err)
	}
	s, err := Decode(b)
	if err != nil || len(s.Problems) > 0 {
		t.Fatal(err, s.Problems)
	}
	// the specification lists searchRange 8, entrySelector 2, rangeShift 0
	if s.SearchRange != 8 || s.EntrySelector != 2 || s.RangeShift != 0 {
		t.Errorf("search fields %d %d %d", s.SearchRange, s.EntrySelector, s.RangeShift)
	}
	for _, tc := range [][2]uint32{{10, 1}, {20, 11}, {30, 12}, {90, 72}, {153, 126}, {480, 453}, {9, 0}, {21, 0}, {100, 0}, {0xFFFF, 0}} {
		if g := s.Lookup(tc[0]); g != tc[1] {
			t.Errorf("code %d: glyph %d, want %d", tc[0], g, tc[1])
		}
	}
}

// idRangeOffset together with idDelta, shared array slots and explicit zeros.
func TestArraySegments(t *testing.T) {
	f := &Format4{
		Segs: []Seg4{
			{Start: 0x20, End: 0x22, Delta: 100, Slot: 0},
			{Start: 0x40, End: 0x41, Delta: 0xFFFF, Slot: 1}, // shares entries 1,2
			{Start: 0xFFFF, End: 0xFFFF, Delta: 0, Slot: 3},
		},
		Glyphs: []uint16{5, 0, 7, 0},
	}
	b, err := f.Encode()
	if err != nil {
		t.Fatal(err)
	}
	s, err := Decode(b)
	if err != nil || len(s.Problems) > 0 {
		t.Fatal(err, s.Problems)
	}
	want := map[uint32]uint32{0x20: 105, 0x21: 0, 0x22: 107, 0x40: 0, 0x41: 6, 0xFFFF: 0}
	for c := uint32(0); c < 0x10000; c++ {
		if g := s.Lookup(c); g != want[c] {
			t.Errorf("code %#x: glyph %d, want %d", c, g, want[c])
		}
	}
}
