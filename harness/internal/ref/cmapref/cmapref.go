// Package cmapref holds independent decoders and encoders for the OpenType
// "cmap" table: the table header and subtable formats 0, 4, 6 and 12.
//
// Everything here is written from the OpenType specification, chapter "cmap —
// Character to Glyph Index Mapping Table", not from the library under test.
// The decoders keep the raw file structure (segments, groups, arrays) and
// answer look-ups by doing exactly the arithmetic the specification
// describes, byte addresses included; in particular the format 4 decoder
// finds the glyph array entry through the address
//
//	&idRangeOffset[i] + idRangeOffset[i] + 2*(c - startCode[i])
//
// and adds idDelta[i] (modulo 65536) to every non-zero entry, as the
// specification requires.
//
// The encoders are deliberately low level: the caller chooses every segment,
// delta, offset and array slot, so that shapes which no optimising encoder
// produces (segments with both idDelta and idRangeOffset, segments sharing or
// overlapping glyph array windows, explicit zero entries, any convention for
// the final 0xFFFF segment) can be written.
package cmapref

import (
	"encoding/binary"
	"fmt"
	"math/bits"
	"sort"
)

var be = binary.BigEndian

// ---------------------------------------------------------------------------
// table header

// Record is one encoding record of the cmap header.
type Record struct {
	PlatformID uint16
	EncodingID uint16
	Offset     uint32
	// filled in by DecodeTable:
	Format   uint16
	Length   uint32 // length field of the subtable
	Language uint32 // language field of the subtable (0 for format 14)
	Data     []byte // the subtable bytes, nil if the record is unusable
}

// Table is a parsed cmap header.
type Table struct {
	Version  uint16
	Records  []Record
	Problems []string // deviations from the specification
}

func (t *Table) problem(format string, a ...any) {
	if len(t.Problems) < 20 {
		t.Problems = append(t.Problems, fmt.Sprintf(format, a...))
	}
}

// SubtableHeader reads format, length and language of the subtable that
// starts at data[0].  ok is false if the header does not fit or the format is
// not one of the formats defined by the specification.
func SubtableHeader(data []byte) (format uint16, length, language uint32, ok bool) {
	if len(data) < 2 {
		return 0, 0, 0, false
	}
	format = be.Uint16(data)
	switch format {
	case 0, 2, 4, 6:
		if len(data) < 6 {
			return format, 0, 0, false
		}
		return format, uint32(be.Uint16(data[2:])), uint32(be.Uint16(data[4:])), true
	case 8, 10, 12, 13:
		// uint16 format, uint16 reserved, uint32 length, uint32 language
		if len(data) < 12 {
			return format, 0, 0, false
		}
		return format, be.Uint32(data[4:]), be.Uint32(data[8:]), true
	case 14:
		if len(data) < 6 {
			return format, 0, 0, false
		}
		return format, be.Uint32(data[2:]), 0, true
	}
	return format, 0, 0, false
}

// DecodeTable parses the cmap header and locates every subtable.  It checks:
// version 0; the record array fits; records are sorted by platform id, then
// encoding id (then, for equal pairs, by the language of the subtable); every
// offset points behind the header to a subtable whose declared length fits
// into the table; two subtables either coincide or do not overlap.
func DecodeTable(data []byte) *Table {
	t := &Table{}
	if len(data) < 4 {
		t.problem("table shorter than its 4 byte header")
		return t
	}
	t.Version = be.Uint16(data)
	if t.Version != 0 {
		t.problem("version %d != 0", t.Version)
	}
	n := int(be.Uint16(data[2:]))
	if 4+8*n > len(data) {
		t.problem("numTables=%d does not fit into %d bytes", n, len(data))
		return t
	}
	end := uint32(4 + 8*n)
	type span struct{ a, b uint32 }
	var spans []span
	for i := 0; i < n; i++ {
		p := data[4+8*i:]
		r := Record{PlatformID: be.Uint16(p), EncodingID: be.Uint16(p[2:]), Offset: be.Uint32(p[4:])}
		if r.Offset < end || uint64(r.Offset) >= uint64(len(data)) {
			t.problem("record %d: offset %d outside [%d,%d)", i, r.Offset, end, len(data))
		} else {
			f, l, lang, ok := SubtableHeader(data[r.Offset:])
			r.Format = f
			if !ok {
				t.problem("record %d: unusable subtable header (format %d)", i, f)
			} else if uint64(r.Offset)+uint64(l) > uint64(len(data)) {
				t.problem("record %d: subtable length %d exceeds table", i, l)
			} else {
				r.Length, r.Language = l, lang
				r.Data = data[r.Offset : r.Offset+l]
				spans = append(spans, span{r.Offset, r.Offset + l})
			}
		}
		t.Records = append(t.Records, r)
	}
	for i := 1; i < len(t.Records); i++ {
		a, b := t.Records[i-1], t.Records[i]
		switch {
		case a.PlatformID != b.PlatformID:
			if a.PlatformID > b.PlatformID {
				t.problem("records %d,%d not sorted by platform id", i-1, i)
			}
		case a.EncodingID != b.EncodingID:
			if a.EncodingID > b.EncodingID {
				t.problem("records %d,%d not sorted by encoding id", i-1, i)
			}
		default:
			if a.Data != nil && b.Data != nil && a.Language >= b.Language {
				t.problem("records %d,%d: same platform/encoding, language not ascending", i-1, i)
			}
		}
	}
	sort.Slice(spans, func(i, j int) bool {
		if spans[i].a != spans[j].a {
			return spans[i].a < spans[j].a
		}
		return spans[i].b < spans[j].b
	})
	for i := 1; i < len(spans); i++ {
		if spans[i] == spans[i-1] {
			continue // shared subtable
		}
		if spans[i].a < spans[i-1].b {
			t.problem("subtables [%d,%d) and [%d,%d) overlap", spans[i-1].a, spans[i-1].b, spans[i].a, spans[i].b)
		}
	}
	return t
}

// TableRecord describes one record for EncodeTable: the key and the index of
// its subtable in the subtable list.
type TableRecord struct {
	PlatformID, EncodingID uint16
	Sub                    int
}

// EncodeTable writes a version 0 cmap table.  Records are written in the
// order given (use SortRecords for the order the specification asks for);
// every subtable is stored once, in list order, and may be referenced by any
// number of records.  gap bytes of padding are inserted between subtables.
func EncodeTable(recs []TableRecord, subs [][]byte, gap int) []byte {
	out := make([]byte, 4+8*len(recs))
	be.PutUint16(out[2:], uint16(len(recs)))
	offs := make([]uint32, len(subs))
	for i, s := range subs {
		offs[i] = uint32(len(out))
		out = append(out, s...)
		out = append(out, make([]byte, gap)...)
	}
	for i, r := range recs {
		p := out[4+8*i:]
		be.PutUint16(p, r.PlatformID)
		be.PutUint16(p[2:], r.EncodingID)
		be.PutUint32(p[4:], offs[r.Sub])
	}
	return out
}

// SortRecords sorts records by platform id, encoding id and the language of
// the subtable they refer to.
func SortRecords(recs []TableRecord, subs [][]byte) {
	lang := func(r TableRecord) uint32 {
		_, _, l, _ := SubtableHeader(subs[r.Sub])
		return l
	}
	sort.SliceStable(recs, func(i, j int) bool {
		a, b := recs[i], recs[j]
		if a.PlatformID != b.PlatformID {
			return a.PlatformID < b.PlatformID
		}
		if a.EncodingID != b.EncodingID {
			return a.EncodingID < b.EncodingID
		}
		return lang(a) < lang(b)
	})
}

// ---------------------------------------------------------------------------
// subtables

// Sub is a decoded subtable of format 0, 4, 6 or 12.
type Sub struct {
	Format   uint16
	Length   uint32
	Language uint32

	// format 0
	Bytes []byte // 256 glyph ids

	// format 4
	SegCount                                 int
	SearchRange, EntrySelector, RangeShift   uint16
	ReservedPad                              uint16
	EndCode, StartCode, IDDelta, IDRangeOffs []uint16
	raw                                      []byte // whole subtable, for glyph array addressing

	// format 6
	FirstCode uint16
	Glyphs    []uint16

	// format 12
	Groups []Group

	// Problems lists every deviation from the specification that was seen
	// while decoding (wrong search fields, order, bounds, …).  A subtable
	// with problems can still be queried; look-ups that would leave the
	// subtable give 0.
	Problems []string
}

// Group is a sequential map group of format 12.
type Group struct {
	StartChar, EndChar, StartGlyph uint32
}

func (s *Sub) problem(format string, a ...any) {
	if len(s.Problems) < 20 {
		s.Problems = append(s.Problems, fmt.Sprintf(format, a...))
	}
}

// Decode decodes one subtable.  data must be exactly the subtable (as
// delimited by its length field; a mismatch is reported as a problem).
// An error is returned only when nothing can be decoded at all.
func Decode(data []byte) (*Sub, error) {
	f, l, lang, ok := SubtableHeader(data)
	if !ok {
		return nil, fmt.Errorf("cmapref: unusable subtable header")
	}
	s := &Sub{Format: f, Length: l, Language: lang}
	if uint64(l) != uint64(len(data)) {
		s.problem("length field %d != %d bytes", l, len(data))
	}
	switch f {
	case 0:
		// uint16 format, length, language; uint8 glyphIdArray[256]
		if len(data) != 262 {
			return nil, fmt.Errorf("cmapref: format 0 subtable of %d bytes", len(data))
		}
		s.Bytes = data[6:262]
	case 4:
		if err := s.decode4(data); err != nil {
			return nil, err
		}
	case 6:
		// uint16 format, length, language, firstCode, entryCount; uint16 glyphIdArray[entryCount]
		if len(data) < 10 {
			return nil, fmt.Errorf("cmapref: format 6 header does not fit")
		}
		s.FirstCode = be.Uint16(data[6:])
		n := int(be.Uint16(data[8:]))
		if 10+2*n > len(data) {
			return nil, fmt.Errorf("cmapref: format 6 entryCount %d does not fit", n)
		}
		if 10+2*n != len(data) {
			s.problem("format 6: %d trailing bytes", len(data)-10-2*n)
		}
		if int(s.FirstCode)+n > 0x10000 {
			s.problem("format 6: firstCode+entryCount exceeds 65536")
		}
		s.Glyphs = make([]uint16, n)
		for i := range s.Glyphs {
			s.Glyphs[i] = be.Uint16(data[10+2*i:])
		}
	case 12:
		// uint16 format, reserved; uint32 length, language, numGroups; groups
		if len(data) < 16 {
			return nil, fmt.Errorf("cmapref: format 12 header does not fit")
		}
		if be.Uint16(data[2:]) != 0 {
			s.problem("format 12: reserved field not 0")
		}
		n := be.Uint32(data[12:])
		if uint64(16)+12*uint64(n) > uint64(len(data)) {
			return nil, fmt.Errorf("cmapref: format 12 numGroups %d does not fit", n)
		}
		if 16+12*int(n) != len(data) {
			s.problem("format 12: %d trailing bytes", len(data)-16-12*int(n))
		}
		s.Groups = make([]Group, n)
		for i := range s.Groups {
			p := data[16+12*i:]
			g := Group{be.Uint32(p), be.Uint32(p[4:]), be.Uint32(p[8:])}
			s.Groups[i] = g
			if g.EndChar < g.StartChar {
				s.problem("format 12: group %d end < start", i)
			}
			if i > 0 && g.StartChar <= s.Groups[i-1].EndChar {
				s.problem("format 12: group %d not after group %d", i, i-1)
			}
			if g.EndChar >= g.StartChar && uint64(g.StartGlyph)+uint64(g.EndChar-g.StartChar) > 0xFFFF {
				s.problem("format 12: group %d glyph ids exceed 0xFFFF", i)
			}
		}
	default:
		return nil, fmt.Errorf("cmapref: format %d not implemented", f)
	}
	return s, nil
}

func floorLog2(n int) int { return bits.Len(uint(n)) - 1 }

func (s *Sub) decode4(data []byte) error {
	// uint16 format, length, language, segCountX2, searchRange,
	// entrySelector, rangeShift; endCode[segCount]; reservedPad;
	// startCode[segCount]; idDelta[segCount]; idRangeOffsets[segCount];
	// glyphIdArray[]
	if len(data) < 16 {
		return fmt.Errorf("cmapref: format 4 header does not fit")
	}
	x2 := int(be.Uint16(data[6:]))
	if x2%2 != 0 {
		s.problem("format 4: segCountX2 odd")
	}
	n := x2 / 2
	if n == 0 {
		s.problem("format 4: no segments")
	}
	if 16+8*n > len(data) {
		return fmt.Errorf("cmapref: format 4 segCount %d does not fit", n)
	}
	if len(data)%2 != 0 {
		s.problem("format 4: odd length")
	}
	s.raw = data
	s.SegCount = n
	s.SearchRange = be.Uint16(data[8:])
	s.EntrySelector = be.Uint16(data[10:])
	s.RangeShift = be.Uint16(data[12:])
	if n > 0 {
		// searchRange = 2 × 2^floor(log2(segCount)), entrySelector =
		// floor(log2(segCount)), rangeShift = 2×segCount − searchRange
		e := floorLog2(n)
		if int(s.SearchRange) != 2*(1<<e) {
			s.problem("format 4: searchRange %d, want %d", s.SearchRange, 2*(1<<e))
		}
		if int(s.EntrySelector) != e {
			s.problem("format 4: entrySelector %d, want %d", s.EntrySelector, e)
		}
		if int(s.RangeShift) != 2*n-2*(1<<e) {
			s.problem("format 4: rangeShift %d, want %d", s.RangeShift, 2*n-2*(1<<e))
		}
	}
	rd := func(base, i int) uint16 { return be.Uint16(data[base+2*i:]) }
	endBase := 14
	s.ReservedPad = be.Uint16(data[endBase+2*n:])
	if s.ReservedPad != 0 {
		s.problem("format 4: reservedPad %d", s.ReservedPad)
	}
	startBase := endBase + 2*n + 2
	deltaBase := startBase + 2*n
	offsBase := deltaBase + 2*n
	for i := 0; i < n; i++ {
		s.EndCode = append(s.EndCode, rd(endBase, i))
		s.StartCode = append(s.StartCode, rd(startBase, i))
		s.IDDelta = append(s.IDDelta, rd(deltaBase, i))
		s.IDRangeOffs = append(s.IDRangeOffs, rd(offsBase, i))
	}
	for i := 0; i < n; i++ {
		if s.StartCode[i] > s.EndCode[i] {
			s.problem("format 4: segment %d start > end", i)
		}
		if i > 0 && s.EndCode[i] <= s.EndCode[i-1] {
			s.problem("format 4: endCode not ascending at %d", i)
		}
		if i > 0 && s.StartCode[i] <= s.EndCode[i-1] {
			s.problem("format 4: segment %d overlaps segment %d", i, i-1)
		}
		if ro := int(s.IDRangeOffs[i]); ro != 0 && s.StartCode[i] <= s.EndCode[i] {
			if ro%2 != 0 {
				s.problem("format 4: segment %d odd idRangeOffset", i)
			}
			first := offsBase + 2*i + ro
			last := first + 2*int(s.EndCode[i]-s.StartCode[i])
			if first < offsBase+2*n || last+2 > len(data) {
				s.problem("format 4: segment %d glyph array window [%d,%d) outside the subtable", i, first, last+2)
			}
		}
	}
	if n > 0 && s.EndCode[n-1] != 0xFFFF {
		s.problem("format 4: last endCode %#x != 0xFFFF", s.EndCode[n-1])
	}
	return nil
}

// Lookup returns the glyph id the subtable assigns to the character code, 0
// for "missing glyph".  No platform specific re-interpretation of codes takes
// place: code is the character code as stored in the file.
func (s *Sub) Lookup(code uint32) uint32 {
	switch s.Format {
	case 0:
		if code > 255 {
			return 0
		}
		return uint32(s.Bytes[code])
	case 4:
		if code > 0xFFFF {
			return 0
		}
		c := uint16(code)
		// first segment whose endCode >= c
		i := sort.Search(s.SegCount, func(i int) bool { return s.EndCode[i] >= c })
		if i == s.SegCount || s.StartCode[i] > c {
			return 0
		}
		if s.IDRangeOffs[i] == 0 {
			return uint32(c + s.IDDelta[i]) // modulo 65536
		}
		addr := (16 + 6*s.SegCount + 2*i) + int(s.IDRangeOffs[i]) + 2*int(c-s.StartCode[i])
		if addr < 0 || addr+2 > len(s.raw) {
			return 0
		}
		g := be.Uint16(s.raw[addr:])
		if g == 0 {
			return 0
		}
		return uint32(g + s.IDDelta[i]) // modulo 65536
	case 6:
		if code < uint32(s.FirstCode) || code-uint32(s.FirstCode) >= uint32(len(s.Glyphs)) {
			return 0
		}
		return uint32(s.Glyphs[code-uint32(s.FirstCode)])
	case 12:
		i := sort.Search(len(s.Groups), func(i int) bool { return s.Groups[i].EndChar >= code })
		if i == len(s.Groups) || s.Groups[i].StartChar > code {
			return 0
		}
		return s.Groups[i].StartGlyph + (code - s.Groups[i].StartChar)
	}
	return 0
}

// Each calls fn for every character code with a non-zero glyph id, in
// ascending code order (format 12: group order).
func (s *Sub) Each(fn func(code, gid uint32)) {
	switch s.Format {
	case 0:
		for c := uint32(0); c < 256; c++ {
			if g := s.Lookup(c); g != 0 {
				fn(c, g)
			}
		}
	case 4:
		for i := 0; i < s.SegCount; i++ {
			if s.StartCode[i] > s.EndCode[i] {
				continue
			}
			for c := uint32(s.StartCode[i]); c <= uint32(s.EndCode[i]); c++ {
				if g := s.Lookup(c); g != 0 {
					fn(c, g)
				}
			}
		}
	case 6:
		for i, g := range s.Glyphs {
			if g != 0 {
				fn(uint32(s.FirstCode)+uint32(i), uint32(g))
			}
		}
	case 12:
		for _, g := range s.Groups {
			if g.EndChar < g.StartChar {
				continue
			}
			for c := g.StartChar; ; c++ {
				if v := g.StartGlyph + (c - g.StartChar); v != 0 {
					fn(c, v)
				}
				if c == g.EndChar {
					break
				}
			}
		}
	}
}

// ---------------------------------------------------------------------------
// encoders

// EncodeFormat0 writes a byte encoding table.
func EncodeFormat0(language uint16, gids *[256]byte) []byte {
	out := make([]byte, 262)
	be.PutUint16(out, 0)
	be.PutUint16(out[2:], 262)
	be.PutUint16(out[4:], language)
	copy(out[6:], gids[:])
	return out
}

// EncodeFormat6 writes a trimmed table mapping.
func EncodeFormat6(language, firstCode uint16, gids []uint16) []byte {
	out := make([]byte, 10+2*len(gids))
	be.PutUint16(out, 6)
	be.PutUint16(out[2:], uint16(len(out)))
	be.PutUint16(out[4:], language)
	be.PutUint16(out[6:], firstCode)
	be.PutUint16(out[8:], uint16(len(gids)))
	for i, g := range gids {
		be.PutUint16(out[10+2*i:], g)
	}
	return out
}

// EncodeFormat12 writes a segmented coverage subtable with the groups exactly
// as given.
func EncodeFormat12(language uint32, groups []Group) []byte {
	out := make([]byte, 16+12*len(groups))
	be.PutUint16(out, 12)
	be.PutUint32(out[4:], uint32(len(out)))
	be.PutUint32(out[8:], language)
	be.PutUint32(out[12:], uint32(len(groups)))
	for i, g := range groups {
		p := out[16+12*i:]
		be.PutUint32(p, g.StartChar)
		be.PutUint32(p[4:], g.EndChar)
		be.PutUint32(p[8:], g.StartGlyph)
	}
	return out
}

// Seg4 is one segment of a format 4 subtable as the caller wants it written.
type Seg4 struct {
	Start, End uint16
	Delta      uint16
	// Slot < 0: idRangeOffset = 0 (glyph = code + Delta).  Slot >= 0: the
	// segment reads glyphIdArray[Slot + (code - Start)]; the encoder
	// computes the idRangeOffset that addresses this slot.
	Slot int
}

// Format4 is a format 4 subtable in raw form.
type Format4 struct {
	Language uint16
	Segs     []Seg4   // in file order; the caller is responsible for the final 0xFFFF segment
	Glyphs   []uint16 // glyphIdArray
}

// Encode writes the subtable; the search fields follow the formulas of the
// specification.  It returns an error if an idRangeOffset or the length does
// not fit into 16 bits.
func (f *Format4) Encode() ([]byte, error) {
	n := len(f.Segs)
	length := 16 + 8*n + 2*len(f.Glyphs)
	if length > 0xFFFF {
		return nil, fmt.Errorf("cmapref: format 4 subtable of %d bytes", length)
	}
	out := make([]byte, length)
	be.PutUint16(out, 4)
	be.PutUint16(out[2:], uint16(length))
	be.PutUint16(out[4:], f.Language)
	be.PutUint16(out[6:], uint16(2*n))
	if n > 0 {
		e := floorLog2(n)
		be.PutUint16(out[8:], uint16(2*(1<<e)))
		be.PutUint16(out[10:], uint16(e))
		be.PutUint16(out[12:], uint16(2*n-2*(1<<e)))
	}
	endBase := 14
	startBase := endBase + 2*n + 2
	deltaBase := startBase + 2*n
	offsBase := deltaBase + 2*n
	for i, sg := range f.Segs {
		be.PutUint16(out[endBase+2*i:], sg.End)
		be.PutUint16(out[startBase+2*i:], sg.Start)
		be.PutUint16(out[deltaBase+2*i:], sg.Delta)
		if sg.Slot >= 0 {
			// distance in bytes from &idRangeOffset[i] to &glyphIdArray[Slot]
			ro := 2*(n-i) + 2*sg.Slot
			if ro > 0xFFFF {
				return nil, fmt.Errorf("cmapref: idRangeOffset %d does not fit", ro)
			}
			be.PutUint16(out[offsBase+2*i:], uint16(ro))
		}
	}
	for i, g := range f.Glyphs {
		be.PutUint16(out[offsBase+2*n+2*i:], g)
	}
	return out, nil
}

// SimpleFormat4 encodes a map (code -> non-zero glyph id) in a plain way: one
// idRangeOffset=0 segment per maximal run of constant delta, plus the
// customary final segment 0xFFFF..0xFFFF with idDelta 1 when 0xFFFF is not
// mapped.  The result is correct but not short; its length is an upper bound
// for the length of a shortest encoding.  ok is false if it does not fit
// into 65535 bytes.
func SimpleFormat4(language uint16, m map[uint16]uint16) (data []byte, ok bool) {
	codes := make([]int, 0, len(m))
	for c, g := range m {
		if g != 0 {
			codes = append(codes, int(c))
		}
	}
	sort.Ints(codes)
	f := &Format4{Language: language}
	for i := 0; i < len(codes); {
		c := uint16(codes[i])
		d := m[c] - c
		j := i + 1
		for j < len(codes) && codes[j] == codes[j-1]+1 && m[uint16(codes[j])]-uint16(codes[j]) == d {
			j++
		}
		f.Segs = append(f.Segs, Seg4{Start: c, End: uint16(codes[j-1]), Delta: d, Slot: -1})
		i = j
	}
	if k := len(f.Segs); k == 0 || f.Segs[k-1].End != 0xFFFF {
		f.Segs = append(f.Segs, Seg4{Start: 0xFFFF, End: 0xFFFF, Delta: 1, Slot: -1})
	}
	out, err := f.Encode()
	return out, err == nil
}

// SimpleFormat12 encodes a map (code -> non-zero glyph id) with one group per
// maximal run of consecutive codes and glyph ids.
func SimpleFormat12(language uint32, m map[uint32]uint16) []byte {
	codes := make([]uint32, 0, len(m))
	for c, g := range m {
		if g != 0 {
			codes = append(codes, c)
		}
	}
	sort.Slice(codes, func(i, j int) bool { return codes[i] < codes[j] })
	var groups []Group
	for i := 0; i < len(codes); {
		j := i + 1
		for j < len(codes) && codes[j] == codes[j-1]+1 && uint32(m[codes[j]]) == uint32(m[codes[j-1]])+1 {
			j++
		}
		groups = append(groups, Group{codes[i], codes[j-1], uint32(m[codes[i]])})
		i = j
	}
	return EncodeFormat12(language, groups)
}
